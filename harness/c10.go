package main

import (
	"bufio"
	"bytes"
	"context"
	"encoding/json"
	"fmt"
	"io"
	"math/rand"
	"net/http"
	"net/http/httptest"
	"os"
	"os/exec"
	"strings"
	"sync"
	"time"

	jsonrpc "github.com/filecoin-project/go-jsonrpc"
	"github.com/gorilla/websocket"
)

// C10: rows of Builtins.tla against real endpoints hosted in a child process (a crash of the endpoint must not
// take the harness down; the parent records it as alive=false for the row that was running).

func init() {
	register("c10", runC10)
	register("c10child", runC10Child)
}

func runC10(env *Env) error {
	rows, err := readNDJSON(env.In)
	if err != nil {
		return err
	}
	self, err := os.Executable()
	if err != nil {
		return err
	}
	dir, err := os.MkdirTemp("", "c10-")
	if err != nil {
		return err
	}
	defer os.RemoveAll(dir)
	start := 0
	n := 0
	crashes := 0
	for start < len(rows) {
		out := fmt.Sprintf("%s/child-%d.ndjson", dir, start)
		cmd := exec.Command(self, "c10child", "-in", env.In, "-out", out, "-seed", fmt.Sprint(env.Seed), "-tier", env.Tier, "-arg", fmt.Sprintf("start=%d", start))
		var stderr bytes.Buffer
		cmd.Stderr = &stderr
		cmd.Stdout = &stderr
		runErr := cmd.Run()
		done, _ := readNDJSON(out)
		for _, l := range done {
			n++
			l["n"] = n
			env.W.Emit(l)
		}
		start += len(done)
		if runErr == nil {
			if start < len(rows) {
				return fmt.Errorf("child exited cleanly after %d of %d rows", start, len(rows))
			}
			break
		}
		if start >= len(rows) {
			break
		}
		// the child died while running rows[start]
		crashes++
		if crashes > 200 {
			return fmt.Errorf("too many child crashes; last stderr: %s", tail(stderr.String(), 2000))
		}
		row := rows[start]["row"].(map[string]interface{})
		n++
		obs := map[string]interface{}{"alive": false, "probeSame": false, "probeFresh": false, "cancelled": false,
			"delivered": false, "closed": false, "completed": false, "accepted": false, "execs": 0, "errreply": false,
			"exit": runErr.Error(), "stderr": tail(stderr.String(), 600)}
		env.W.Emit(map[string]interface{}{"row": row, "obs": obs, "n": n})
		start++
	}
	return nil
}

func tail(s string, n int) string {
	if len(s) > n {
		return s[len(s)-n:]
	}
	return s
}

// ---------------------------------------------------------------------------------------------- child

type c10T struct {
	mu       sync.Mutex
	started  chan struct{}
	ctxDone  chan struct{}
	release  chan struct{}
	echoRuns int
}

func (t *c10T) Live(ctx context.Context) int {
	t.mu.Lock()
	st, cd, rel := t.started, t.ctxDone, t.release
	t.mu.Unlock()
	close(st)
	select {
	case <-ctx.Done():
		close(cd)
	case <-rel:
	}
	return 1
}
func (t *c10T) Ping() int { return 1 }
func (t *c10T) Echo(s string) string {
	t.mu.Lock()
	t.echoRuns++
	t.mu.Unlock()
	return "x"
}
func (t *c10T) reset() {
	t.mu.Lock()
	t.started, t.ctxDone, t.release = make(chan struct{}), make(chan struct{}), make(chan struct{})
	t.mu.Unlock()
}

const c10Live = 7

func c10X(x string, forChan bool) string {
	switch x {
	case "live":
		return fmt.Sprint(c10Live)
	case "livestr":
		return fmt.Sprintf(`"%d"`, c10Live)
	case "unknown":
		return "99"
	case "neg":
		return fmt.Sprintf("-%d", c10Live)
	case "frac":
		return fmt.Sprintf("%d.5", c10Live)
	case "huge":
		if forChan {
			return "18446744073709551616"
		}
		return "1e30"
	case "str":
		return `"abc"`
	case "bool":
		return "true"
	case "null":
		return "null"
	case "arr":
		return fmt.Sprintf("[%d]", c10Live)
	case "obj":
		return fmt.Sprintf(`{"id":%d}`, c10Live)
	}
	panic(x)
}

func c10Y(y string) string {
	return map[string]string{"num": "42", "str": `"v"`, "null": "null", "obj": `{"a":1}`}[y]
}

// c10Frame renders a hostile frame; liveReq is the id of the client's in-flight request (client role).
func c10Frame(rng *rand.Rand, f map[string]interface{}, liveReq string) (payload []byte, raw bool, binary bool) {
	switch f["kind"] {
	case "cancel", "chval", "chclose":
		method := map[string]string{"cancel": "xrpc.cancel", "chval": "xrpc.ch.val", "chclose": "xrpc.ch.close"}[f["kind"].(string)]
		x := c10X(f["x"].(string), f["kind"] != "cancel")
		y := c10Y(f["y"].(string))
		var params string
		switch f["shape"] {
		case "absent":
			params = ""
		case "null":
			params = `,"params":null`
		case "empty":
			params = `,"params":[]`
		case "object":
			params = `,"params":{"id":7}`
		case "one":
			params = `,"params":[` + x + `]`
		case "two":
			params = `,"params":[` + x + `,` + y + `]`
		case "three":
			params = `,"params":[` + x + `,` + y + `,3]`
		}
		id := map[string]string{"absent": "", "num": `,"id":55`, "str": `,"id":"b"`}[f["fid"].(string)]
		return []byte(`{"jsonrpc":"2.0","method":"` + method + `"` + params + id + `}`), false, false
	case "response":
		rid := map[string]string{"live": liveReq, "livestr": `"` + liveReq + `"`, "unknown": "424242", "str": `"nope"`, "absent": "", "null": "null", "bool": "true", "obj": `{"a":1}`}[f["rid"].(string)]
		idf := ""
		if rid != "" {
			idf = `,"id":` + rid
		}
		body := map[string]string{
			"result":    `,"result":5`,
			"badresult": `,"result":{"not":"an int"}`,
			"error":     `,"error":{"code":5,"message":"m"}`,
			"both":      `,"result":5,"error":{"code":5,"message":"m"}`,
			"neither":   ``,
			"badshape":  `,"error":"just a string"`,
		}[f["body"].(string)]
		return []byte(`{"jsonrpc":"2.0"` + idf + body + `}`), false, false
	case "garbage":
		switch f["g"] {
		case "text":
			return []byte(`this is not json`), false, false
		case "empty":
			return []byte{}, false, false
		case "binary":
			b := make([]byte, 64)
			rng.Read(b)
			return b, false, true
		case "array":
			return []byte(`[{"jsonrpc":"2.0","method":"T.Ping","params":[],"id":1}]`), false, false
		case "number":
			return []byte(`12345`), false, false
		case "badmethod":
			return []byte(`{"jsonrpc":"2.0","method":5,"id":1}`), false, false
		case "badmeta":
			return []byte(`{"jsonrpc":"2.0","method":"T.Ping","meta":7,"id":1}`), false, false
		case "deep":
			return []byte(`{"jsonrpc":"2.0","method":"xrpc.ch.val","params":` + strings.Repeat("[", 2000) + strings.Repeat("]", 2000) + `}`), false, false
		case "truncated":
			return []byte(`{"jsonrpc":"2.0","method":"T.Ping","params":[`), false, false
		case "hugeid":
			return []byte(`{"jsonrpc":"2.0","method":"T.Nope","params":[],"id":1e400}`), false, false
		}
	case "call":
		switch f["c"] {
		case "valid":
			return []byte(`{"jsonrpc":"2.0","method":"T.Ping","params":[],"id":"c-valid"}`), false, false
		case "unknown":
			return []byte(`{"jsonrpc":"2.0","method":"T.Nope","params":[1,2],"id":"c-unknown"}`), false, false
		case "badspan":
			return []byte(`{"jsonrpc":"2.0","method":"T.Ping","params":[],"id":"c-span","meta":{"SpanContext":"!!!not-base64"}}`), false, false
		case "objid":
			return []byte(`{"jsonrpc":"2.0","method":"T.Ping","params":[],"id":{"a":1}}`), false, false
		case "boolid":
			return []byte(`{"jsonrpc":"2.0","method":"T.Ping","params":[],"id":false}`), false, false
		case "fracid":
			return []byte(`{"jsonrpc":"2.0","method":"T.Ping","params":[],"id":2.75}`), false, false
		case "emptymethod":
			return []byte(`{"jsonrpc":"2.0","method":"","params":[]}`), false, false
		case "p1absent":
			return []byte(`{"jsonrpc":"2.0","method":"T.Echo","id":"c-p1a"}`), false, false
		case "p1null":
			return []byte(`{"jsonrpc":"2.0","method":"T.Echo","params":null,"id":"c-p1n"}`), false, false
		case "p1empty":
			return []byte(`{"jsonrpc":"2.0","method":"T.Echo","params":[],"id":"c-p1e"}`), false, false
		case "p1two":
			return []byte(`{"jsonrpc":"2.0","method":"T.Echo","params":["a","b"],"id":"c-p1t"}`), false, false
		case "p1object":
			return []byte(`{"jsonrpc":"2.0","method":"T.Echo","params":{"s":"a"},"id":"c-p1o"}`), false, false
		case "p1wrongtype":
			return []byte(`{"jsonrpc":"2.0","method":"T.Echo","params":[{"not":"a string"}],"id":"c-p1w"}`), false, false
		case "p1string":
			return []byte(`{"jsonrpc":"2.0","method":"T.Echo","params":"a","id":"c-p1s"}`), false, false
		case "p1absentnotif":
			return []byte(`{"jsonrpc":"2.0","method":"T.Echo"}`), false, false
		case "p1emptynotif":
			return []byte(`{"jsonrpc":"2.0","method":"T.Echo","params":[]}`), false, false
		}
	case "wsviolation":
		// raw frame bytes; the writer masks them if it is the client side
		switch f["v"] {
		case "rsv":
			return []byte{0x80 | 0x40 | 0x1}, true, false
		case "opcode":
			return []byte{0x80 | 0x3}, true, false
		case "badclose":
			return []byte{0x80 | 0x8}, true, false
		case "fragctl":
			return []byte{0x9}, true, false
		}
	}
	panic(fmt.Sprint("unknown frame ", f))
}

// writeRaw writes a single frame with first byte b0 and a 1-byte payload (so a close frame has an invalid
// 1-byte body); masked when sent by a client.
func writeRaw(c *websocket.Conn, b0 byte, masked bool) error {
	nc := c.UnderlyingConn()
	if masked {
		_, err := nc.Write([]byte{b0, 0x80 | 1, 1, 2, 3, 4, 'x' ^ 1})
		return err
	}
	_, err := nc.Write([]byte{b0, 1, 'x'})
	return err
}

func wsURL(ts *httptest.Server) string { return "ws" + strings.TrimPrefix(ts.URL, "http") }

func readResponse(c *websocket.Conn, id string, d time.Duration) bool {
	deadline := time.Now().Add(d)
	for {
		c.SetReadDeadline(deadline)
		_, msg, err := c.ReadMessage()
		if err != nil {
			return false
		}
		var obj map[string]json.RawMessage
		if json.Unmarshal(msg, &obj) != nil {
			continue
		}
		if string(obj["id"]) == id {
			_, ok := obj["result"]
			return ok
		}
	}
}

func c10ServerRow(rng *rand.Rand, srvURL string, t *c10T, frames []interface{}) map[string]interface{} {
	obs := map[string]interface{}{"alive": true, "probeSame": false, "probeFresh": false, "cancelled": false, "delivered": false, "closed": false, "completed": false}
	t.reset()
	conn, _, err := websocket.DefaultDialer.Dial(srvURL, nil)
	if err != nil {
		obs["note"] = "dial: " + err.Error()
		return obs
	}
	defer conn.Close()
	conn.WriteMessage(websocket.TextMessage, []byte(fmt.Sprintf(`{"jsonrpc":"2.0","id":%d,"method":"T.Live","params":[]}`, c10Live)))
	select {
	case <-t.started:
	case <-time.After(3 * time.Second):
		obs["note"] = "live handler did not start"
		return obs
	}
	for _, fr := range frames {
		p, raw, bin := c10Frame(rng, fr.(map[string]interface{}), "0")
		if raw {
			writeRaw(conn, p[0], true)
			continue
		}
		mt := websocket.TextMessage
		if bin {
			mt = websocket.BinaryMessage
		}
		conn.WriteMessage(mt, p)
	}
	conn.WriteMessage(websocket.TextMessage, []byte(`{"jsonrpc":"2.0","id":"probe-same","method":"T.Ping","params":[]}`))
	obs["probeSame"] = readResponse(conn, `"probe-same"`, 2*time.Second)
	select {
	case <-t.ctxDone:
		obs["cancelled"] = true
	case <-time.After(5 * time.Millisecond):
	}
	if !obs["probeSame"].(bool) {
		// the connection may have been closed (protocol violation): then the handler context is cancelled by the close
		obs["cancelled"] = false
	}
	c2, _, err := websocket.DefaultDialer.Dial(srvURL, nil)
	if err == nil {
		c2.WriteMessage(websocket.TextMessage, []byte(`{"jsonrpc":"2.0","id":"probe-fresh","method":"T.Ping","params":[]}`))
		obs["probeFresh"] = readResponse(c2, `"probe-fresh"`, 2*time.Second)
		c2.Close()
	}
	close(t.release)
	return obs
}

// ---- client role: a fake server scripted by the harness

type c10Fake struct {
	mu      sync.Mutex
	conns   chan *websocket.Conn
	liveReq chan string // id of the T.Live request as seen on the wire
	wmu     sync.Mutex
}

func (fk *c10Fake) ServeHTTP(w http.ResponseWriter, r *http.Request) {
	up := websocket.Upgrader{CheckOrigin: func(*http.Request) bool { return true }}
	c, err := up.Upgrade(w, r, nil)
	if err != nil {
		return
	}
	select {
	case fk.conns <- c:
	default:
	}
	for {
		_, msg, err := c.ReadMessage()
		if err != nil {
			return
		}
		var req struct {
			ID     json.RawMessage `json:"id"`
			Method string          `json:"method"`
		}
		if json.Unmarshal(msg, &req) != nil {
			continue
		}
		switch req.Method {
		case "T.Sub":
			fk.write(c, fmt.Sprintf(`{"jsonrpc":"2.0","id":%s,"result":%d}`, req.ID, c10Live))
		case "T.Ping":
			fk.write(c, fmt.Sprintf(`{"jsonrpc":"2.0","id":%s,"result":1}`, req.ID))
		case "T.Live":
			select {
			case fk.liveReq <- string(req.ID):
			default:
			}
		}
	}
}

func (fk *c10Fake) write(c *websocket.Conn, s string) {
	fk.wmu.Lock()
	defer fk.wmu.Unlock()
	c.WriteMessage(websocket.TextMessage, []byte(s))
}

// c10CloseTS closes a test server without waiting for ever for connections a wedged peer keeps open.
func c10CloseTS(ts *httptest.Server) {
	done := make(chan struct{})
	go func() { ts.CloseClientConnections(); ts.Close(); close(done) }()
	select {
	case <-done:
	case <-time.After(3 * time.Second):
	}
}

type c10API struct {
	Sub  func(ctx context.Context) (<-chan int, error)
	Live func(ctx context.Context) (int, error)
	Ping func() (int, error)
}

func c10ClientRow(rng *rand.Rand, frames []interface{}) map[string]interface{} {
	obs := map[string]interface{}{"alive": true, "probeSame": false, "probeFresh": false, "cancelled": false, "delivered": false, "closed": false, "completed": false}
	fk := &c10Fake{conns: make(chan *websocket.Conn, 4), liveReq: make(chan string, 4)}
	ts := httptest.NewServer(fk)
	defer c10CloseTS(ts)
	var api c10API
	ctx, cancel := context.WithCancel(context.Background())
	defer cancel()
	closer, err := jsonrpc.NewMergeClient(ctx, wsURL(ts), "T", []interface{}{&api}, nil)
	if err != nil {
		obs["note"] = "client: " + err.Error()
		return obs
	}
	defer func() {
		// a wedged client (its connection goroutine stuck) must not wedge the harness; it is reported as not alive
		done := make(chan struct{})
		go func() { closer(); close(done) }()
		select {
		case <-done:
		case <-time.After(3 * time.Second):
			obs["alive"] = false
			obs["note"] = fmt.Sprint(obs["note"], " client closer did not return within 3s")
		}
	}()
	var sc *websocket.Conn
	select {
	case sc = <-fk.conns:
	case <-time.After(3 * time.Second):
		obs["note"] = "no connection at fake server"
		return obs
	}
	ch, err := api.Sub(ctx)
	if err != nil {
		obs["note"] = "sub: " + err.Error()
		return obs
	}
	liveDone := make(chan struct{})
	go func() {
		api.Live(ctx)
		close(liveDone)
	}()
	var liveReq string
	select {
	case liveReq = <-fk.liveReq:
	case <-time.After(3 * time.Second):
		obs["note"] = "live request not seen"
		return obs
	}
	for _, fr := range frames {
		p, raw, bin := c10Frame(rng, fr.(map[string]interface{}), liveReq)
		fk.wmu.Lock()
		if raw {
			writeRaw(sc, p[0], false)
		} else if bin {
			sc.WriteMessage(websocket.BinaryMessage, p)
		} else {
			sc.WriteMessage(websocket.TextMessage, p)
		}
		fk.wmu.Unlock()
	}
	pr := make(chan bool, 1)
	go func() {
		v, err := api.Ping()
		pr <- err == nil && v == 1
	}()
	select {
	case ok := <-pr:
		obs["probeSame"] = ok
	case <-time.After(2 * time.Second):
	}
	// frames are executed in order before the probe's response, so the effects are visible now
	deadline := time.After(20 * time.Millisecond)
drain:
	for {
		select {
		case _, ok := <-ch:
			if !ok {
				obs["closed"] = true
				break drain
			}
			obs["delivered"] = true
		case <-deadline:
			break drain
		}
	}
	select {
	case <-liveDone:
		obs["completed"] = true
	case <-time.After(5 * time.Millisecond):
	}
	if !obs["probeSame"].(bool) {
		obs["closed"], obs["completed"], obs["delivered"] = false, false, false // connection-level effects, not frame effects
	}
	var api2 c10API
	closer2, err := jsonrpc.NewMergeClient(ctx, wsURL(ts), "T", []interface{}{&api2}, nil)
	if err == nil {
		pr2 := make(chan bool, 1)
		go func() {
			v, err := api2.Ping()
			pr2 <- err == nil && v == 1
		}()
		select {
		case ok := <-pr2:
			obs["probeFresh"] = ok
		case <-time.After(2 * time.Second):
		}
		closer2()
	}
	return obs
}

func c10SizeRow(rng *rand.Rand, row map[string]interface{}) map[string]interface{} {
	limit := int(row["limit"].(float64))
	size := map[string]int{"m1": limit - 1, "eq": limit, "p1": limit + 1, "x2": 2 * limit, "x100": 100 * limit}[row["rel"].(string)]
	t := &c10T{}
	srv := jsonrpc.NewServer(jsonrpc.WithMaxRequestSize(int64(limit)))
	srv.Register("T", t)
	base := `{"jsonrpc":"2.0","id":1,"method":"T.Echo","params":[""]}`
	var body string
	pad := size - len(base)
	if pad < 0 {
		pad = 0
	}
	switch row["pad"] {
	case "string":
		body = `{"jsonrpc":"2.0","id":1,"method":"T.Echo","params":["` + strings.Repeat("a", pad) + `"]}`
	case "trailws":
		body = base + strings.Repeat([]string{" ", "\n", "\t"}[rng.Intn(3)], pad)
	case "leadws":
		body = strings.Repeat(" ", pad) + base
	case "junk":
		if size > limit {
			ws := limit + 1 - len(base)
			if ws < 1 {
				ws = 1
			}
			body = base + strings.Repeat(" ", ws)
			if len(body) < size {
				body += strings.Repeat("x", size-len(body))
			}
		} else {
			body = base + strings.Repeat(" ", pad)
		}
	}
	var reply []byte
	if rng.Intn(2) == 0 {
		ts := httptest.NewServer(srv)
		resp, err := http.Post(ts.URL, "application/json", strings.NewReader(body))
		if err == nil {
			reply, _ = io.ReadAll(resp.Body)
			resp.Body.Close()
		}
		ts.Close()
	} else {
		var out bytes.Buffer
		srv.HandleRequest(context.Background(), strings.NewReader(body), &out)
		reply = out.Bytes()
	}
	var r struct {
		Result *string `json:"result"`
		Error  *struct {
			Code int `json:"code"`
		} `json:"error"`
	}
	_ = json.Unmarshal(reply, &r)
	return map[string]interface{}{"accepted": r.Result != nil && r.Error == nil, "errreply": r.Error != nil && r.Result == nil,
		"execs": t.echoRuns, "len": len(body)}
}

func runC10Child(env *Env) error {
	rows, err := readNDJSON(env.In)
	if err != nil {
		return err
	}
	start := 0
	fmt.Sscan(env.Args["start"], &start)
	rng := rand.New(rand.NewSource(env.Seed + int64(start)))
	t := &c10T{}
	srv := jsonrpc.NewServer()
	srv.Register("T", t)
	ts := httptest.NewServer(srv)
	defer ts.Close()
	bw := bufio.NewWriter(os.Stderr)
	defer bw.Flush()
	for i := start; i < len(rows); i++ {
		row := rows[i]["row"].(map[string]interface{})
		var obs map[string]interface{}
		switch {
		case row["kind"] == "size":
			obs = c10SizeRow(rng, row)
		case row["role"] == "server":
			obs = c10ServerRow(rng, wsURL(ts), t, row["frames"].([]interface{}))
		default:
			obs = c10ClientRow(rng, row["frames"].([]interface{}))
		}
		// keep every line the same shape for the trace specification
		for _, k := range []string{"alive", "probeSame", "probeFresh", "cancelled", "delivered", "closed", "completed", "accepted", "errreply"} {
			if _, ok := obs[k]; !ok {
				obs[k] = false
			}
		}
		if _, ok := obs["execs"]; !ok {
			obs["execs"] = 0
		}
		env.W.Emit(map[string]interface{}{"row": row, "obs": obs})
		env.W.Flush()
	}
	return nil
}
