package main

import (
	"context"
	"math/rand"
	"sync"
	"time"
)

func init() { scenarios["c13.panic"] = scC13Panic }

// c13.panic: one (or two concurrent) panicking call(s) among healthy siblings on the same connection, on another
// connection and over HTTP; everybody else must behave as if nothing had happened.
func scC13Panic(w *World, a Args, rng *rand.Rand) error {
	applyDelays(w, a)
	kind := a.Str("kind", "unary") // unary | notify | sub | reverse
	payload := a.Str("payload", "string")
	tr := a.Str("transport", "ws")
	A, err := w.NewClient(ClientOpts{Name: "A", NoPing: true, Reverse: true})
	if err != nil {
		return err
	}
	B, err := w.NewClient(ClientOpts{Name: "B", NoPing: true})
	if err != nil {
		return err
	}
	Hc, err := w.NewClient(ClientOpts{Name: "H", HTTP: true})
	if err != nil {
		return err
	}
	var wg sync.WaitGroup
	call := func(c *Client, k string, tok int, gated bool, arg ...interface{}) {
		w.Plan(tok, &Plan{Gated: gated})
		wg.Add(1)
		go func() {
			defer wg.Done()
			c.Call(context.Background(), k, tok, arg...)
		}()
	}
	streamDone := make(chan struct{})
	step := make(chan struct{}, 32)
	if a.Bool("siblings") {
		call(A, "unary", 1, true)
		call(A, "big", 5, true, 100000)
		call(B, "unary", 11, true)
		call(Hc, "unary", 21, true)
		w.Plan(3, &Plan{Step: step})
		wg.Add(1)
		go func() {
			defer wg.Done()
			ch, out := A.Subscribe(context.Background(), 3, 6, "")
			if out == "ok" && ch != nil {
				w.Consume(3, ch, nil, streamDone)
			} else {
				close(streamDone)
			}
		}()
		for _, t := range []int{1, 5, 11, 21} {
			w.WaitRunning(t, time.Second)
		}
		for i := 0; i < 3; i++ {
			step <- struct{}{}
		}
		time.Sleep(2 * time.Millisecond)
	} else {
		close(streamDone)
	}
	target := A
	if tr == "http" {
		target = Hc
	}
	blocked := false
	if a.Bool("blockwriter") && tr == "ws" {
		// a response far larger than the socket buffers is being written while nobody reads: the connection's writer is occupied,
		// so the error replies of the panicking calls are rendered and then queue up behind it
		for _, pc := range w.Proxy.Conns() {
			if pc.ID == 1 {
				pc.Hold(S2C)
				blocked = true
			}
		}
		call(A, "big", 7, false, 6<<20)
		time.Sleep(30 * time.Millisecond)
	}
	boom := func(tok int) {
		switch kind {
		case "unary":
			if a.Bool("cancelafter") {
				// the caller gives up first; the handler notices and panics only then: its error reply is still owed
				ctx, cancel := context.WithCancel(context.Background())
				go func() {
					w.WaitRunning(tok, time.Second)
					time.Sleep(2 * time.Millisecond)
					w.Rec.Emit("CallerCancel", "call", tok)
					cancel()
				}()
				target.CallT2(ctx, "panic", tok, patience(3*time.Second), "aftercancel:"+payload)
				cancel()
			} else {
				target.Call(context.Background(), "panic", tok, payload)
			}
		case "notify":
			target.Call(context.Background(), "panicnotify", tok, payload)
		case "sub":
			target.Subscribe(context.Background(), tok, 0, payload)
		case "reverse":
			target.Call(context.Background(), "callbackpanic", tok, payload)
		}
	}
	var bw sync.WaitGroup
	toks := []int{9}
	if a.Bool("twice") {
		toks = []int{9, 19}
	}
	for _, t := range toks {
		bw.Add(1)
		go func(t int) { defer bw.Done(); boom(t) }(t)
	}
	bd := make(chan struct{})
	go func() { bw.Wait(); close(bd) }()
	if blocked {
		time.Sleep(30 * time.Millisecond)
		for _, pc := range w.Proxy.Conns() {
			if pc.ID == 1 {
				pc.Release(S2C, -1)
			}
		}
	}
	waitCh(bd, patience(3*time.Second))
	time.Sleep(3 * time.Millisecond)
	// the siblings carry on
	for i := 0; i < 3; i++ {
		select {
		case step <- struct{}{}:
		default:
		}
	}
	for _, t := range []int{1, 5, 11, 21} {
		w.Release(t)
	}
	done := make(chan struct{})
	go func() { wg.Wait(); close(done) }()
	waitCh(done, patience(3*time.Second))
	waitCh(streamDone, patience(3*time.Second))
	// and later calls work everywhere
	A.CallT("unary", 31, patience(2*time.Second))
	B.CallT("unary", 32, patience(2*time.Second))
	Hc.CallT("unary", 33, patience(2*time.Second))
	w.Quiesce(A, 1000, 2*time.Second)
	return nil
}
