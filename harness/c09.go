package main

import (
	"bytes"
	"context"
	"encoding/json"
	"errors"
	"fmt"
	"io"
	"math/big"
	"math/rand"
	"net/http"
	"net/http/httptest"
	"strings"
	"sync"
	"time"

	jsonrpc "github.com/filecoin-project/go-jsonrpc"
	"github.com/gorilla/websocket"
)

// C09: rows of HttpReply.tla as real bytes against a real RPCServer.

func init() { register("c09", runC09) }

type c09H struct {
	mu    sync.Mutex
	execs int
}

func (h *c09H) hit(n int) { h.mu.Lock(); h.execs += n; h.mu.Unlock() }
func (h *c09H) Void0()    { h.hit(1) }
func (h *c09H) Val1(a int) int {
	h.hit(1)
	return a + 1000
}

// Slow1 is Val1 with a parameter that takes a moment to decode (the request is "being prepared" for a while after it was accepted).
type c09Slow struct{ V int }

func (s *c09Slow) UnmarshalJSON(b []byte) error {
	time.Sleep(300 * time.Microsecond)
	return json.Unmarshal(b, &s.V)
}
func (h *c09H) Slow1(a c09Slow) int {
	h.hit(1)
	return a.V + 1000
}
func (h *c09H) Err0() error         { h.hit(1); return errors.New("handler error") }
func (h *c09H) Both0() (int, error) { h.hit(1); return 7, errors.New("both") }
func (h *c09H) Panic0()             { h.hit(1); panic("boom") }
func (h *c09H) Other1(a int) int    { h.hit(100); return -1 }
func (h *c09H) Void1(a string)      { h.hit(100) }

// Open0 returns a channel that stays open for as long as the connection lives (an open subscription).
func (h *c09H) Open0(ctx context.Context) (<-chan int, error) {
	ch := make(chan int)
	go func() { <-ctx.Done(); close(ch) }()
	return ch, nil
}

type c09Elem struct {
	slow    bool // sent to Slow1; over WebSocket a cancel for its id follows at once (the request is still owed its response)
	id, req string
	idRaw   string // "" when absent
	param   int
	body    string
}

func c09ID(rng *rand.Rand, class string, i int) string {
	switch class {
	case "absent":
		return ""
	case "null":
		return "null"
	case "int":
		return c09Pick(0, []string{fmt.Sprint(i*7 + rng.Intn(5)), fmt.Sprint(-(i*11 + 1)), fmt.Sprint(9007199254740000 + i), fmt.Sprint(i * 1000)})
	case "frac":
		return c09Pick(1, []string{fmt.Sprintf("%d.5", i), fmt.Sprintf("%d.25", i+10), fmt.Sprintf("-%d.125", i), fmt.Sprintf("%de-1", i*10+5)})
	case "str":
		b, _ := json.Marshal(c09Pick(2, []string{fmt.Sprintf("id-%d", i), fmt.Sprintf("%d", i), fmt.Sprintf("q\"%d<&>", i), fmt.Sprintf("é世%d", i), strings.Repeat("x", i),
			// characters a hand-rolled quoting routine gets wrong: controls without a short escape, DEL, non-printable runes beyond the BMP, line separators
			fmt.Sprintf("c\x01\x1f%d", i), fmt.Sprintf("del\x7f%d", i), fmt.Sprintf("tag\U000E0001%d", i), fmt.Sprintf("ls\u2028\u2029%d", i), fmt.Sprintf("\\u00e9 / %d", i)}))
		return string(b)
	case "bool":
		return c09Pick(3, []string{"true", "false"})
	case "obj":
		return c09Pick(4, []string{`{}`, `{"a":1}`})
	case "arr":
		return c09Pick(5, []string{`[]`, `[1]`, `["x"]`})
	}
	panic(class)
}

func c09Build(rng *rand.Rand, e map[string]interface{}, i int) c09Elem {
	el := c09Elem{id: e["id"].(string), req: e["req"].(string)}
	el.idRaw = c09ID(rng, el.id, i)
	el.param = rng.Intn(1000) - 200
	ns := fmt.Sprintf("E%d", i)
	method, params := "", ""
	switch el.req {
	case "void":
		method, params = ns+".Void0", `[]`
	case "voidnop":
		method, params = ns+".Void0", ""
	case "voidnull":
		method, params = ns+".Void0", `null`
	case "val":
		method, params = ns+".Val1", fmt.Sprintf(`[%d]`, el.param)
		if c09Pick(17, []string{"", "slow", ""}) == "slow" {
			method, el.slow = ns+".Slow1", true
		}
	case "alias":
		method, params = fmt.Sprintf("Al%d.Val", i), fmt.Sprintf(`[%d]`, el.param)
	case "herr":
		method, params = ns+".Err0", `[]`
	case "both":
		method, params = ns+".Both0", `[]`
	case "panic":
		method, params = ns+".Panic0", `[]`
	case "unknown":
		method = c09Pick(6, []string{ns + ".Nope", "Nope", strings.ToLower(ns) + ".void0", ns + ".Void0 ", "E9.Void0", ns + "Void0", ns + ".void0"})
		params = `[]`
	case "nomethod":
		method, params = "\x00none", `[]`
	case "arity":
		method, params = ns+".Val1", c09Pick(7, []string{`[]`, `[1,2]`, `[1,2,3]`, `null`, ""})
	case "arity0":
		method, params = ns+".Void0", c09Pick(8, []string{`[1]`, `[1,"two"]`, `[null]`})
	case "badtype":
		method, params = ns+".Val1", c09Pick(9, []string{`["x"]`, `[1.5]`, `[true]`, `[{}]`, `[[1]]`})
	case "objparams":
		method, params = ns+".Val1", c09Pick(10, []string{`{"a":1}`, `"x"`, `7`, `{}`})
	}
	fields := []string{`"jsonrpc":"2.0"`}
	if method != "\x00none" {
		mb, _ := json.Marshal(method)
		fields = append(fields, `"method":`+string(mb))
	}
	if params != "" {
		fields = append(fields, `"params":`+params)
	}
	if el.idRaw != "" {
		fields = append(fields, `"id":`+el.idRaw)
	}
	rng.Shuffle(len(fields), func(a, b int) { fields[a], fields[b] = fields[b], fields[a] })
	sp := func() string { return c09Pick(11, []string{"", " ", "\n", "\t ", "  "}) }
	el.body = "{" + sp() + strings.Join(fields, sp()+","+sp()) + sp() + "}"
	return el
}

// bodies that are not one well-formed JSON value (truncated, not JSON, trailing data after a valid request or batch)
var c09Garbage = []string{`{"jsonrpc":`, `hello`, `[}]`, `[1,2`, `{"jsonrpc":"2.0","method":"E1.Void0","id":1`, `{'a':1}`, "\x00\x01",
	`{"jsonrpc":"2.0","method":"E1.Void0","params":[],"id":1}}`, `[{"jsonrpc":"2.0","method":"E1.Void0","params":[],"id":1}`,
	`{"jsonrpc":"2.0","method":"E1.Void0","params":[],"id":1} {"jsonrpc":"2.0","method":"E1.Void0","params":[],"id":2}`,
	`{"jsonrpc":"2.0","method":"E1.Void0","params":[],"id":1} x`, `[{"jsonrpc":"2.0","method":"E1.Void0","params":[],"id":1}]]`,
	`{"jsonrpc":"2.0","method":"E1.Void0","params":[],"id":1},`}
var c09GarbageNext int

// c09Pick cycles through the variants of one concretisation site, so that every variant is exercised once the site has been
// visited len(vs) times (a seeded pick left rare variants to chance).
var c09PickCtr = map[int]int{}

func c09Pick(site int, vs []string) string {
	v := vs[c09PickCtr[site]%len(vs)]
	c09PickCtr[site]++
	return v
}

func c09Server(n int) (*jsonrpc.RPCServer, []*c09H, *c09H) {
	srv := jsonrpc.NewServer()
	hs := make([]*c09H, n)
	for i := 1; i <= n; i++ {
		hs[i-1] = &c09H{}
		srv.Register(fmt.Sprintf("E%d", i), hs[i-1])
		srv.AliasMethod(fmt.Sprintf("Al%d.Val", i), fmt.Sprintf("E%d.Val1", i))
	}
	sent := &c09H{}
	srv.Register("S", sent)
	return srv, hs, sent
}

func jsonNumEq(a, b json.Number) bool {
	ra, ok1 := new(big.Float).SetPrec(200).SetString(string(a))
	rb, ok2 := new(big.Float).SetPrec(200).SetString(string(b))
	return ok1 && ok2 && ra.Cmp(rb) == 0
}

// idIndex returns the 1-based index of the element whose id has the same JSON type and value, 0 for null, -1 otherwise.
func idIndex(raw json.RawMessage, els []c09Elem) int {
	dec := func(s string) (interface{}, bool) {
		d := json.NewDecoder(strings.NewReader(s))
		d.UseNumber()
		var v interface{}
		if err := d.Decode(&v); err != nil {
			return nil, false
		}
		return v, true
	}
	v, ok := dec(string(raw))
	if !ok {
		return -1
	}
	if v == nil {
		return 0
	}
	for i, e := range els {
		if e.idRaw == "" {
			continue
		}
		w, ok := dec(e.idRaw)
		if !ok || w == nil {
			continue
		}
		switch x := v.(type) {
		case json.Number:
			if y, ok := w.(json.Number); ok && jsonNumEq(x, y) {
				return i + 1
			}
		case string:
			if y, ok := w.(string); ok && x == y {
				return i + 1
			}
		}
	}
	return -1
}

func c09Entry(obj map[string]json.RawMessage, els []c09Elem) map[string]interface{} {
	ent := map[string]interface{}{"code": 0, "vok": true}
	ent["v2"] = string(obj["jsonrpc"]) == `"2.0"`
	_, hasR := obj["result"]
	_, hasE := obj["error"]
	switch {
	case hasR && hasE:
		ent["res"] = "both"
	case hasR:
		ent["res"] = "result"
	case hasE:
		ent["res"] = "error"
	default:
		ent["res"] = "neither"
	}
	if idr, ok := obj["id"]; ok {
		ent["id"] = idIndex(idr, els)
	} else {
		ent["id"] = -1
	}
	if hasE {
		var e struct {
			Code    *int    `json:"code"`
			Message *string `json:"message"`
		}
		if json.Unmarshal(obj["error"], &e) != nil || e.Code == nil || e.Message == nil {
			ent["v2"] = false
		} else {
			ent["code"] = *e.Code
		}
	}
	if hasR && !hasE {
		idx := ent["id"].(int)
		if idx >= 1 {
			el := els[idx-1]
			switch el.req {
			case "val", "alias":
				ent["vok"] = strings.TrimSpace(string(obj["result"])) == fmt.Sprint(el.param+1000)
			case "void", "voidnop", "voidnull":
				ent["vok"] = strings.TrimSpace(string(obj["result"])) == "null"
			}
		}
	}
	return ent
}

// c09Classify abstracts an HTTP reply body.
func c09Classify(reply []byte, els []c09Elem) (string, []map[string]interface{}) {
	ents := []map[string]interface{}{}
	if len(bytes.TrimSpace(reply)) == 0 {
		return "empty", ents
	}
	dec := json.NewDecoder(bytes.NewReader(reply))
	var v json.RawMessage
	if err := dec.Decode(&v); err != nil {
		return "malformed", ents
	}
	var extra json.RawMessage
	if err := dec.Decode(&extra); err != io.EOF {
		return "malformed", ents // more than one JSON value
	}
	t := bytes.TrimSpace(v)
	switch t[0] {
	case '{':
		var obj map[string]json.RawMessage
		if json.Unmarshal(t, &obj) != nil {
			return "malformed", ents
		}
		return "object", append(ents, c09Entry(obj, els))
	case '[':
		var arr []json.RawMessage
		if json.Unmarshal(t, &arr) != nil {
			return "malformed", ents
		}
		for _, a := range arr {
			var obj map[string]json.RawMessage
			if json.Unmarshal(a, &obj) != nil {
				return "malformed", ents
			}
			ents = append(ents, c09Entry(obj, els))
		}
		return "array", ents
	}
	return "malformed", ents
}

func c09Pad(rng *rand.Rand, s string) string {
	p := []string{"", " ", "\n", "\r\n\t", "   "}
	return p[rng.Intn(5)] + s + p[rng.Intn(5)]
}

func c09HTTP(rng *rand.Rand, row map[string]interface{}, useHTTP bool) map[string]interface{} {
	elems := row["elems"].([]interface{})
	var els []c09Elem
	for i, e := range elems {
		els = append(els, c09Build(rng, e.(map[string]interface{}), i+1))
	}
	srv, hs, _ := c09Server(3)
	var parts []string
	for _, e := range els {
		parts = append(parts, e.body)
	}
	var body string
	switch row["body"].(string) {
	case "empty":
		body = ""
	case "ws":
		body = c09Pick(12, []string{" ", "\n\n", " \t\r\n "})
	case "garbage":
		body = c09Garbage[c09GarbageNext%len(c09Garbage)] // every variant in turn (the row is run len(c09Garbage) times)
		c09GarbageNext++
	case "nonobject":
		body = c09Pick(13, []string{`5`, `"s"`, `true`, `1.5`})
	case "nullbody":
		body = c09Pad(rng, "null")
	case "emptybatch":
		body = c09Pad(rng, c09Pick(14, []string{"[]", "[ ]", "[\n]"}))
	case "batchbad":
		bad := c09Pick(15, []string{`1`, `"x"`, `[]`, `true`, `{"jsonrpc":"2.0","method":5,"id":1}`, `{"jsonrpc":"2.0","method":"E1.Void0","params":[],"id":1,"meta":7}`})
		all := append(append([]string{}, parts...), bad)
		if len(parts) > 0 && rng.Intn(2) == 0 {
			all = append([]string{bad}, parts...)
		}
		body = c09Pad(rng, "["+strings.Join(all, ",")+"]")
	case "single":
		body = c09Pad(rng, parts[0])
	case "batch":
		body = c09Pad(rng, "["+strings.Join(parts, c09Pick(16, []string{",", " , ", ",\n"}))+"]")
	}
	status := -1
	var reply []byte
	if useHTTP {
		ts := httptest.NewServer(srv)
		resp, err := http.Post(ts.URL, "application/json", strings.NewReader(body))
		if err == nil {
			reply, _ = io.ReadAll(resp.Body)
			resp.Body.Close()
			status = resp.StatusCode
		} else {
			reply = []byte("harness: " + err.Error())
		}
		ts.Close()
	} else {
		var out bytes.Buffer
		srv.HandleRequest(context.Background(), strings.NewReader(body), &out)
		reply = out.Bytes()
	}
	shape, ents := c09Classify(reply, els)
	execs := []int{}
	for i := range els {
		execs = append(execs, hs[i].execs)
	}
	return map[string]interface{}{"shape": shape, "status": status, "entries": ents, "execs": execs, "body": body, "reply": string(reply)}
}

func c09WS(rng *rand.Rand, row map[string]interface{}) (map[string]interface{}, error) {
	elems := row["elems"].([]interface{})
	var els []c09Elem
	for i, e := range elems {
		els = append(els, c09Build(rng, e.(map[string]interface{}), i+1))
	}
	srv, hs, _ := c09Server(3)
	ts := httptest.NewServer(srv)
	defer ts.Close()
	conn, _, err := websocket.DefaultDialer.Dial("ws"+strings.TrimPrefix(ts.URL, "http"), nil)
	if err != nil {
		return nil, err
	}
	defer conn.Close()
	preambleUnanswered := false
	hadPreamble := false
	// history of the connection: an earlier request whose id one of this row's frames will use again is still an open
	// subscription (ids are the peer's business; every request frame with a valid id is owed its own response)
	if rng.Intn(2) == 0 {
		for _, e := range els {
			var probe interface{}
			if e.idRaw == "" || json.Unmarshal([]byte(e.idRaw), &probe) != nil {
				continue
			}
			if _, isS := probe.(string); !isS {
				if _, isN := probe.(float64); !isN {
					continue
				}
			}
			if err := conn.WriteMessage(websocket.TextMessage, []byte(`{"jsonrpc":"2.0","method":"S.Open0","params":[],"id":`+e.idRaw+`}`)); err != nil {
				return nil, err
			}
			hadPreamble = true
			for {
				conn.SetReadDeadline(time.Now().Add(2 * time.Second))
				_, msg, err := conn.ReadMessage()
				if err != nil {
					// the subscription request (a request frame with a valid id) got no response: that is an observation, not a harness problem
					preambleUnanswered = true
					conn.Close()
					conn, _, err = websocket.DefaultDialer.Dial("ws"+strings.TrimPrefix(ts.URL, "http"), nil)
					if err != nil {
						return nil, err
					}
					defer conn.Close()
					break
				}
				var obj map[string]json.RawMessage
				if json.Unmarshal(msg, &obj) == nil {
					if _, isReq := obj["method"]; !isReq {
						break // the response announcing the channel
					}
				}
			}
			break
		}
	}
	for _, e := range els {
		mt := websocket.TextMessage
		if rng.Intn(4) == 0 {
			mt = websocket.BinaryMessage
		}
		if err := conn.WriteMessage(mt, []byte(e.body)); err != nil {
			return nil, err
		}
		if e.slow && e.idRaw != "" {
			var probe interface{}
			if json.Unmarshal([]byte(e.idRaw), &probe) == nil {
				switch probe.(type) {
				case string, float64:
					conn.WriteMessage(websocket.TextMessage, []byte(`{"jsonrpc":"2.0","method":"xrpc.cancel","params":[`+e.idRaw+`]}`))
				}
			}
		}
	}
	if rng.Intn(3) == 0 { // a notification to a channel-returning method: like every notification it gets no frame in return
		conn.WriteMessage(websocket.TextMessage, []byte(`{"jsonrpc":"2.0","method":"S.Open0","params":[]}`))
	}
	ents := []map[string]interface{}{}
	if preambleUnanswered {
		ents = append(ents, map[string]interface{}{"id": -1, "res": "neither", "code": 0, "v2": false, "vok": false})
	}
	frames := []string{}
	readUntil := func(sentinel string) error {
		if err := conn.WriteMessage(websocket.TextMessage, []byte(`{"jsonrpc":"2.0","method":"S.Void0","params":[],"id":"`+sentinel+`"}`)); err != nil {
			return err
		}
		for {
			conn.SetReadDeadline(time.Now().Add(5 * time.Second))
			_, msg, err := conn.ReadMessage()
			if err != nil {
				return fmt.Errorf("ws read: %w (frames so far %v)", err, frames)
			}
			var obj map[string]json.RawMessage
			if json.Unmarshal(msg, &obj) != nil {
				ents = append(ents, map[string]interface{}{"id": -1, "res": "neither", "code": 0, "v2": false, "vok": false})
				continue
			}
			if string(obj["id"]) == `"`+sentinel+`"` {
				return nil
			}
			if _, isReq := obj["method"]; isReq {
				if !hadPreamble { // channel traffic nobody subscribed to on this connection
					ents = append(ents, map[string]interface{}{"id": -1, "res": "neither", "code": 0, "v2": false, "vok": false})
				}
				continue
			}
			frames = append(frames, string(msg))
			ents = append(ents, c09Entry(obj, els))
		}
	}
	if err := readUntil("sentinel-a"); err != nil {
		return nil, err
	}
	// handlers run in their own goroutines: give stragglers two more round trips
	time.Sleep(3 * time.Millisecond)
	if err := readUntil("sentinel-b"); err != nil {
		return nil, err
	}
	// a request to the slow-decoding method is still "being prepared" for a moment (its sleep can stretch to milliseconds on a busy
	// machine): keep exchanging sentinels until its handler has run or a generous bound has passed
	for k := 0; k < 100; k++ {
		pending := false
		for i, e := range els {
			if e.slow && e.id != "bool" && e.id != "obj" && e.id != "arr" { // (a frame with an id of invalid type is dropped: nothing to wait for)
				hs[i].mu.Lock()
				if hs[i].execs == 0 {
					pending = true
				}
				hs[i].mu.Unlock()
			}
			// a well-formed notification produces nothing to read: its handler goroutine can be overtaken by the sentinels on a
			// starved machine, so give it a bounded while (spent only on a tree that does not run it)
			if e.idRaw == "" && k < 30 && (e.req == "void" || e.req == "val" || e.req == "herr" || e.req == "both" || e.req == "panic") {
				hs[i].mu.Lock()
				if hs[i].execs == 0 {
					pending = true
				}
				hs[i].mu.Unlock()
			}
		}
		if !pending {
			hasSlow := false
			for _, e := range els {
				hasSlow = hasSlow || e.slow
			}
			// every request with a usable id is owed a response, written by its handler's own goroutine: on a starved machine that
			// goroutine can be overtaken by any number of sentinel round trips, so wait for the response itself, within reason
			// (the bound is only ever spent on a tree that does not answer)
			{
				for j := 0; j < 50; j++ {
					missing := false
					for i, e := range els {
						if e.idRaw == "" || e.req == "nomethod" || e.id == "bool" || e.id == "obj" || e.id == "arr" || e.id == "null" {
							continue
						}
						seen := false
						for _, en := range ents {
							if en["id"] == i+1 {
								seen = true
							}
						}
						missing = missing || !seen
					}
					if !missing && (j > 0 || !hasSlow) {
						break
					}
					time.Sleep(time.Duration(2+8*j/10) * time.Millisecond)
					if err := readUntil(fmt.Sprintf("sentinel-d%d-%d", k, j)); err != nil {
						return nil, err
					}
				}
			}
			break
		}
		time.Sleep(10 * time.Millisecond)
		if err := readUntil(fmt.Sprintf("sentinel-c%d", k)); err != nil {
			return nil, err
		}
	}
	execs := []int{}
	for i := range els {
		hs[i].mu.Lock()
		execs = append(execs, hs[i].execs)
		hs[i].mu.Unlock()
	}
	bodies := []string{}
	for _, e := range els {
		bodies = append(bodies, e.body)
	}
	return map[string]interface{}{"shape": "frames", "status": 0, "entries": ents, "execs": execs, "body": strings.Join(bodies, " | "), "reply": strings.Join(frames, " | ")}, nil
}

func runC09(env *Env) error {
	rows, err := readNDJSON(env.In)
	if err != nil {
		return err
	}
	rng := rand.New(rand.NewSource(env.Seed))
	reps := 1
	if env.Tier == "thorough" {
		reps = 3
	}
	n := 0
	for _, r := range rows {
		row := r["row"].(map[string]interface{})
		rr := reps
		if row["body"] != "batch" && row["kind"] == "http" {
			rr = reps * 4
		}
		if row["body"] == "garbage" {
			rr = len(c09Garbage)
		}
		for k := 0; k < rr; k++ {
			var obs map[string]interface{}
			if row["kind"] == "ws" {
				obs, err = c09WS(rng, row)
				if err != nil {
					return err
				}
			} else {
				obs = c09HTTP(rng, row, rng.Intn(12) == 0)
			}
			n++
			env.W.Emit(map[string]interface{}{"row": row, "obs": obs, "n": n})
		}
	}
	return nil
}
