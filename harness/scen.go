package main

import (
	"fmt"
	"math/rand"
	"os"
	"runtime"
	"sort"
	"time"
)

// Driver "ws": runs protocol scenarios (one per input line {"sc": name, "args": {...}}) against a fresh World each
// and writes reset + the scenario's totally ordered event log to the trace.

type Scenario func(w *World, a Args, rng *rand.Rand) error

type Args map[string]interface{}

func (a Args) Int(k string, d int) int {
	if v, ok := a[k].(float64); ok {
		return int(v)
	}
	return d
}
func (a Args) Str(k, d string) string {
	if v, ok := a[k].(string); ok {
		return v
	}
	return d
}
func (a Args) Bool(k string) bool { v, _ := a[k].(bool); return v }
func (a Args) Ints(k string) []int {
	var out []int
	if l, ok := a[k].([]interface{}); ok {
		for _, x := range l {
			out = append(out, int(x.(float64)))
		}
	}
	return out
}
func (a Args) Float(k string, d float64) float64 {
	if v, ok := a[k].(float64); ok {
		return v
	}
	return d
}

var scenarios = map[string]Scenario{}

func init() { register("ws", runWS) }

func runWS(env *Env) error {
	lines, err := readNDJSON(env.In)
	if err != nil {
		return err
	}
	hooks := env.Args["hooks"] == "1"
	for i, ln := range lines {
		name := ln["sc"].(string)
		sc, ok := scenarios[name]
		if !ok {
			names := []string{}
			for n := range scenarios {
				names = append(names, n)
			}
			sort.Strings(names)
			return fmt.Errorf("unknown scenario %q (have %v)", name, names)
		}
		args := Args{}
		if a, ok := ln["args"].(map[string]interface{}); ok {
			args = a
		}
		seed := env.Seed*100003 + int64(i)
		rec := NewRecorder(seed, hooks)
		rng := rand.New(rand.NewSource(seed))
		w, err := NewWorld(rec, args.Bool("reverse"))
		if err != nil {
			return err
		}
		// "procs": run the scenario with that many Ps (per-P caches such as sync.Pool behave differently with one P)
		prev := 0
		if n := args.Int("procs", 0); n > 0 {
			prev = runtime.GOMAXPROCS(n)
		}
		t0 := time.Now()
		serr := sc(w, args, rng)
		w.Close()
		if os.Getenv("VERIF_DEBUG") != "" {
			fmt.Fprintf(os.Stderr, "scenario %d %s %v: %.2fs\n", i+1, name, args, time.Since(t0).Seconds())
		}
		if prev > 0 {
			runtime.GOMAXPROCS(prev)
		}
		env.W.Emit(Ev{"ev": "reset", "sc": i + 1, "name": name, "args": args, "seed": seed, "hooks": hooks})
		for _, e := range rec.Events() {
			env.W.Emit(e)
		}
		if serr != nil {
			// a scenario that could not be driven is a harness failure, never a verdict
			return fmt.Errorf("scenario %d %s: %w", i+1, name, serr)
		}
	}
	return nil
}
