package main

import (
	"bytes"
	"encoding/json"
	"fmt"
	"math/rand"
	"os"
	"os/exec"
	"reflect"
	"runtime"
	"sort"
	"sync/atomic"
	"time"

	jsonrpc "github.com/filecoin-project/go-jsonrpc"
)

// Driver "ws": runs protocol scenarios (one per input line {"sc": name, "args": {...}}) against a fresh World each
// and writes reset + the scenario's totally ordered event log to the trace.

type Scenario func(w *World, a Args, rng *rand.Rand) error

type Args map[string]interface{}

func (a Args) Int(k string, d int) int {
	if v, ok := a[k].(float64); ok {
		return int(v)
	}
	return d
}
func (a Args) Str(k, d string) string {
	if v, ok := a[k].(string); ok {
		return v
	}
	return d
}
func (a Args) Bool(k string) bool { v, _ := a[k].(bool); return v }
func (a Args) Ints(k string) []int {
	var out []int
	if l, ok := a[k].([]interface{}); ok {
		for _, x := range l {
			out = append(out, int(x.(float64)))
		}
	}
	return out
}
func (a Args) Float(k string, d float64) float64 {
	if v, ok := a[k].(float64); ok {
		return v
	}
	return d
}

var scenarios = map[string]Scenario{}

func init() {
	register("ws", runWS)
	register("wsp", runWSParent)
}

// runWSParent runs the scenarios in a child process so that a crash of the code under test (a panic in a library
// goroutine) does not take the harness down: the scenario that was running gets a ProcessExit event instead.
func runWSParent(env *Env) error {
	lines, err := readNDJSON(env.In)
	if err != nil {
		return err
	}
	self, err := os.Executable()
	if err != nil {
		return err
	}
	dir, err := os.MkdirTemp("", "wsp-")
	if err != nil {
		return err
	}
	defer os.RemoveAll(dir)
	start, crashes := 0, 0
	for start < len(lines) {
		out := fmt.Sprintf("%s/child-%d.ndjson", dir, start)
		args := []string{"ws", "-in", env.In, "-out", out, "-seed", fmt.Sprint(env.Seed), "-tier", env.Tier, "-arg", fmt.Sprintf("start=%d", start)}
		if env.Args["hooks"] == "1" {
			args = append(args, "-arg", "hooks=1")
		}
		cmd := exec.Command(self, args...)
		var stderr bytes.Buffer
		cmd.Stderr, cmd.Stdout = &stderr, &stderr
		runErr := cmd.Run()
		done, _ := readNDJSON(out)
		completed := 0
		for _, l := range done {
			if l["ev"] == "scenario-done" {
				completed++
				continue
			}
			env.W.Emit(l)
		}
		start += completed
		if runErr == nil {
			if start < len(lines) {
				return fmt.Errorf("child exited cleanly after %d of %d scenarios", start, len(lines))
			}
			break
		}
		if ee, ok := runErr.(*exec.ExitError); ok && ee.ExitCode() == 3 {
			return fmt.Errorf("harness failure in child: %s", tail(stderr.String(), 1500))
		}
		if start >= len(lines) {
			break
		}
		crashes++
		if crashes > 60 {
			return fmt.Errorf("too many crashes of the code under test; last: %s", tail(stderr.String(), 1500))
		}
		// the events of the crashed scenario that made it to disk were emitted above (the child flushes per event group);
		// close the scenario with ProcessExit
		name, _ := lines[start]["sc"].(string)
		env.W.Emit(Ev{"ev": "reset", "sc": start + 1, "name": name, "args": lines[start]["args"], "seed": 0, "hooks": false, "crashed": true})
		env.W.Emit(Ev{"ev": "ProcessExit", "status": runErr.Error(), "stderr": tail(stderr.String(), 800)})
		env.W.Emit(Ev{"ev": "Quiesce", "cli": "", "probe": "none", "waiting": []int{}, "lost": []int{}})
		start++
	}
	return nil
}

func runWS(env *Env) error {
	lines, err := readNDJSON(env.In)
	if err != nil {
		return err
	}
	hooks := env.Args["hooks"] == "1"
	startAt := 0
	fmt.Sscan(env.Args["start"], &startAt)
	for i, ln := range lines {
		if i < startAt {
			continue
		}
		name := ln["sc"].(string)
		sc, ok := scenarios[name]
		if !ok {
			names := []string{}
			for n := range scenarios {
				names = append(names, n)
			}
			sort.Strings(names)
			return fmt.Errorf("unknown scenario %q (have %v)", name, names)
		}
		args := Args{}
		if a, ok := ln["args"].(map[string]interface{}); ok {
			args = a
		}
		seed := env.Seed*100003 + int64(i)
		rec := NewRecorder(seed, hooks)
		rng := rand.New(rand.NewSource(seed))
		var sopts []jsonrpc.ServerOption
		if ms := args.Int("srvpingms", -1); ms >= 0 {
			sopts = append(sopts, jsonrpc.WithServerPingInterval(time.Duration(ms)*time.Millisecond))
		}
		if args.Bool("tracer") { // the server option that reports every call and its results to the application
			var traced int64
			sopts = append(sopts, jsonrpc.WithTracer(func(method string, params []reflect.Value, results []reflect.Value, err error) {
				atomic.AddInt64(&traced, 1)
			}))
		}
		w, err := NewWorld(rec, args.Bool("reverse"), sopts...)
		if err != nil {
			return err
		}
		// "procs": run the scenario with that many Ps (per-P caches such as sync.Pool behave differently with one P)
		prev := 0
		if n := args.Int("procs", 0); n > 0 {
			prev = runtime.GOMAXPROCS(n)
		}
		t0 := time.Now()
		serr := sc(w, args, rng)
		w.Close()
		if os.Getenv("VERIF_DEBUG") != "" {
			fmt.Fprintf(os.Stderr, "scenario %d %s %v: %.2fs\n", i+1, name, args, time.Since(t0).Seconds())
		}
		if prev > 0 {
			runtime.GOMAXPROCS(prev)
		}
		env.W.Emit(Ev{"ev": "reset", "sc": i + 1, "name": name, "args": args, "seed": seed, "hooks": hooks})
		evs := rec.Events()
		annotateTokens(evs)
		for _, e := range evs {
			env.W.Emit(e)
		}
		if serr != nil {
			// a scenario that could not be driven is a harness failure, never a verdict
			return fmt.Errorf("scenario %d %s: %w", i+1, name, serr)
		}
		env.W.Emit(Ev{"ev": "scenario-done", "sc": i + 1})
		env.W.Flush()
	}
	return nil
}

// annotateTokens gives every hook event that belongs to one request the harness call token of that request ("tok").
// Harness methods carry their token as first parameter and a cancel request names the id it cancels, so the tokens are
// derived from the req.params (caller side) and main.req.params (main loop) trace points; events carrying a wire id are
// looked up by id; the main loop handles one request at a time, so its id-less events inherit the token of the latest
// main.req on the same connection. Only meaningful for single-client scenarios (wire ids are per client).
func annotateTokens(evs []Ev) {
	idTok := map[string]int{}
	tokOf := func(method, params string) (int, bool) {
		var ps []json.RawMessage
		if json.Unmarshal([]byte(params), &ps) != nil || len(ps) == 0 {
			return 0, false
		}
		var f float64
		if json.Unmarshal(ps[0], &f) != nil {
			return 0, false
		}
		if method == "xrpc.cancel" {
			t, ok := idTok[fmt.Sprintf("n:%v", f)]
			return t, ok
		}
		return int(f), true
	}
	// pass 1: ids -> tokens from the caller-side trace point
	for _, e := range evs {
		if e["ev"] == "h:req.params" {
			id, _ := e["id"].(string)
			m, _ := e["method"].(string)
			p, _ := e["params"].(string)
			if t, ok := tokOf(m, p); ok {
				e["tok"] = t
				if id != "" && id != "nil" {
					idTok[id] = t
				}
			}
			delete(e, "params")
		}
	}
	// pass 2: everything with an id; the main loop's current request per connection
	cur := map[int]int{}
	curMethod := map[int]string{}
	var pendingMain Ev
	lastCaller := -1
	srvGen := map[int]int{}
	for _, e := range evs {
		name, _ := e["ev"].(string)
		conn, _ := e["conn"].(int)
		if id, ok := e["id"].(string); ok && id != "nil" {
			if t, ok := idTok[id]; ok {
				e["tok"] = t
			}
		}
		switch name {
		case "h:req.params":
			if t, ok := e["tok"].(int); ok {
				lastCaller = t
			}
		case "h:req.enq.pre", "h:req.enq", "h:req.ret", "h:req.exiterr":
			if _, ok := e["tok"]; !ok && lastCaller >= 0 {
				// id-less request (notification): the caller-side points of one request follow its req.params in the same goroutine;
				// scenarios issue at most one notification at a time
				e["tok"] = lastCaller
			}
		case "h:main.req":
			pendingMain = e
			m, _ := e["method"].(string)
			curMethod[conn] = m
			if t, ok := e["tok"].(int); ok {
				cur[conn] = t
			} else {
				delete(cur, conn)
			}
		case "h:main.req.params":
			p, _ := e["params"].(string)
			if t, ok := tokOf(curMethod[conn], p); ok {
				cur[conn] = t
				if pendingMain != nil {
					pendingMain["tok"] = t
				}
			}
			delete(e, "params")
		case "h:wl.enter", "h:wl.exit":
			// the main loop's own write section (requests and notifications; cancel requests are matched through mainpc)
			if _, ok := e["tok"]; !ok && e["role"] == "client" && e["w"] == "req" && e["method"] != "xrpc.cancel" {
				if t, ok := cur[conn]; ok {
					e["tok"] = t
				}
			}
		case "h:main.failfast", "h:inflight.add", "h:write.req.pre", "h:write.req", "h:main.notifdone":
			if _, ok := e["tok"]; !ok {
				if t, ok := cur[conn]; ok {
					e["tok"] = t
				}
			}
		case "h:ws.accept":
			// server connections in accept order = the client's connection generations 0, 1, ...
			srvGen[conn] = len(srvGen)
		}
		if e["role"] == "server" {
			if g, ok := srvGen[conn]; ok {
				e["gen"] = g
			}
		}
	}
}
