package main

import (
	"bytes"
	"fmt"
	"math/rand"
	"os"
	"os/exec"
	"runtime"
	"sort"
	"time"

	jsonrpc "github.com/filecoin-project/go-jsonrpc"
)

// Driver "ws": runs protocol scenarios (one per input line {"sc": name, "args": {...}}) against a fresh World each
// and writes reset + the scenario's totally ordered event log to the trace.

type Scenario func(w *World, a Args, rng *rand.Rand) error

type Args map[string]interface{}

func (a Args) Int(k string, d int) int {
	if v, ok := a[k].(float64); ok {
		return int(v)
	}
	return d
}
func (a Args) Str(k, d string) string {
	if v, ok := a[k].(string); ok {
		return v
	}
	return d
}
func (a Args) Bool(k string) bool { v, _ := a[k].(bool); return v }
func (a Args) Ints(k string) []int {
	var out []int
	if l, ok := a[k].([]interface{}); ok {
		for _, x := range l {
			out = append(out, int(x.(float64)))
		}
	}
	return out
}
func (a Args) Float(k string, d float64) float64 {
	if v, ok := a[k].(float64); ok {
		return v
	}
	return d
}

var scenarios = map[string]Scenario{}

func init() {
	register("ws", runWS)
	register("wsp", runWSParent)
}

// runWSParent runs the scenarios in a child process so that a crash of the code under test (a panic in a library
// goroutine) does not take the harness down: the scenario that was running gets a ProcessExit event instead.
func runWSParent(env *Env) error {
	lines, err := readNDJSON(env.In)
	if err != nil {
		return err
	}
	self, err := os.Executable()
	if err != nil {
		return err
	}
	dir, err := os.MkdirTemp("", "wsp-")
	if err != nil {
		return err
	}
	defer os.RemoveAll(dir)
	start, crashes := 0, 0
	for start < len(lines) {
		out := fmt.Sprintf("%s/child-%d.ndjson", dir, start)
		args := []string{"ws", "-in", env.In, "-out", out, "-seed", fmt.Sprint(env.Seed), "-tier", env.Tier, "-arg", fmt.Sprintf("start=%d", start)}
		if env.Args["hooks"] == "1" {
			args = append(args, "-arg", "hooks=1")
		}
		cmd := exec.Command(self, args...)
		var stderr bytes.Buffer
		cmd.Stderr, cmd.Stdout = &stderr, &stderr
		runErr := cmd.Run()
		done, _ := readNDJSON(out)
		completed := 0
		for _, l := range done {
			if l["ev"] == "scenario-done" {
				completed++
				continue
			}
			env.W.Emit(l)
		}
		start += completed
		if runErr == nil {
			if start < len(lines) {
				return fmt.Errorf("child exited cleanly after %d of %d scenarios", start, len(lines))
			}
			break
		}
		if ee, ok := runErr.(*exec.ExitError); ok && ee.ExitCode() == 3 {
			return fmt.Errorf("harness failure in child: %s", tail(stderr.String(), 1500))
		}
		if start >= len(lines) {
			break
		}
		crashes++
		if crashes > 60 {
			return fmt.Errorf("too many crashes of the code under test; last: %s", tail(stderr.String(), 1500))
		}
		// the events of the crashed scenario that made it to disk were emitted above (the child flushes per event group);
		// close the scenario with ProcessExit
		name, _ := lines[start]["sc"].(string)
		env.W.Emit(Ev{"ev": "reset", "sc": start + 1, "name": name, "args": lines[start]["args"], "seed": 0, "hooks": false, "crashed": true})
		env.W.Emit(Ev{"ev": "ProcessExit", "status": runErr.Error(), "stderr": tail(stderr.String(), 800)})
		env.W.Emit(Ev{"ev": "Quiesce", "cli": "", "probe": "none", "waiting": []int{}, "lost": []int{}})
		start++
	}
	return nil
}

func runWS(env *Env) error {
	lines, err := readNDJSON(env.In)
	if err != nil {
		return err
	}
	hooks := env.Args["hooks"] == "1"
	startAt := 0
	fmt.Sscan(env.Args["start"], &startAt)
	for i, ln := range lines {
		if i < startAt {
			continue
		}
		name := ln["sc"].(string)
		sc, ok := scenarios[name]
		if !ok {
			names := []string{}
			for n := range scenarios {
				names = append(names, n)
			}
			sort.Strings(names)
			return fmt.Errorf("unknown scenario %q (have %v)", name, names)
		}
		args := Args{}
		if a, ok := ln["args"].(map[string]interface{}); ok {
			args = a
		}
		seed := env.Seed*100003 + int64(i)
		rec := NewRecorder(seed, hooks)
		rng := rand.New(rand.NewSource(seed))
		var sopts []jsonrpc.ServerOption
		if ms := args.Int("srvpingms", -1); ms >= 0 {
			sopts = append(sopts, jsonrpc.WithServerPingInterval(time.Duration(ms)*time.Millisecond))
		}
		w, err := NewWorld(rec, args.Bool("reverse"), sopts...)
		if err != nil {
			return err
		}
		// "procs": run the scenario with that many Ps (per-P caches such as sync.Pool behave differently with one P)
		prev := 0
		if n := args.Int("procs", 0); n > 0 {
			prev = runtime.GOMAXPROCS(n)
		}
		t0 := time.Now()
		serr := sc(w, args, rng)
		w.Close()
		if os.Getenv("VERIF_DEBUG") != "" {
			fmt.Fprintf(os.Stderr, "scenario %d %s %v: %.2fs\n", i+1, name, args, time.Since(t0).Seconds())
		}
		if prev > 0 {
			runtime.GOMAXPROCS(prev)
		}
		env.W.Emit(Ev{"ev": "reset", "sc": i + 1, "name": name, "args": args, "seed": seed, "hooks": hooks})
		for _, e := range rec.Events() {
			env.W.Emit(e)
		}
		if serr != nil {
			// a scenario that could not be driven is a harness failure, never a verdict
			return fmt.Errorf("scenario %d %s: %w", i+1, name, serr)
		}
		env.W.Emit(Ev{"ev": "scenario-done", "sc": i + 1})
		env.W.Flush()
	}
	return nil
}
