package main

import (
	"bytes"
	"context"
	"encoding/json"
	"fmt"
	"io"
	"math/rand"
	"net/http"
	"net/http/httptest"
	"reflect"
	"strings"

	jsonrpc "github.com/filecoin-project/go-jsonrpc"
)

// C12: every row of the Dispatch table against a real RPCServer (and a real custom-transport client).

func init() { register("c12", runC12) }

type dispH struct {
	ns  string
	cnt map[string]int
}

func (h *dispH) Foo() { h.cnt[h.ns+"/Foo"]++ }
func (h *dispH) Bar() { h.cnt[h.ns+"/Bar"]++ }

func c12Formatter(f string) jsonrpc.MethodNameFormatter {
	switch f {
	case "ns.orig":
		return jsonrpc.NewMethodNameFormatter(true, jsonrpc.OriginalCase)
	case "ns.lower":
		return jsonrpc.NewMethodNameFormatter(true, jsonrpc.LowerFirstCharCase)
	case "orig":
		return jsonrpc.NewMethodNameFormatter(false, jsonrpc.OriginalCase)
	case "lower":
		return jsonrpc.NewMethodNameFormatter(false, jsonrpc.LowerFirstCharCase)
	case "custom":
		return func(ns, m string) string { return ns + "_" + m }
	}
	panic("unknown formatter " + f)
}

// post sends one raw request body to the server, in-process or over real HTTP, and returns the reply body.
func c12Post(srv *jsonrpc.RPCServer, ts *httptest.Server, body string) []byte {
	if ts != nil {
		resp, err := http.Post(ts.URL, "application/json", strings.NewReader(body))
		if err != nil {
			return []byte(`{"harness_error":"` + err.Error() + `"}`)
		}
		defer resp.Body.Close()
		b, _ := io.ReadAll(resp.Body)
		return b
	}
	var out bytes.Buffer
	srv.HandleRequest(context.Background(), strings.NewReader(body), &out)
	return out.Bytes()
}

func c12RanOf(cnt map[string]int) []string {
	ran := []string{"none", "none"}
	total := 0
	for k, v := range cnt {
		total += v
		if v > 0 {
			p := strings.SplitN(k, "/", 2)
			ran = []string{p[0], p[1]}
		}
	}
	if total > 1 {
		ran = []string{"many", fmt.Sprint(total)}
	}
	return ran
}

func c12Code(reply []byte) (int, bool) {
	var r struct {
		Result json.RawMessage `json:"result"`
		Error  *struct {
			Code int `json:"code"`
		} `json:"error"`
	}
	if err := json.Unmarshal(reply, &r); err != nil {
		return -1, false
	}
	if r.Error != nil {
		return r.Error.Code, true
	}
	return 0, true
}

func c12Name(rng *rand.Rand, row map[string]interface{}, useHTTP bool) map[string]interface{} {
	srv := jsonrpc.NewServer(jsonrpc.WithServerMethodNameFormatter(c12Formatter(row["fmt"].(string))))
	cnt := map[string]int{}
	for _, ns := range strs(row["regs"]) {
		srv.Register(ns, &dispH{ns: ns, cnt: cnt})
	}
	al := row["alias"].(map[string]interface{})
	if al["has"].(bool) {
		srv.AliasMethod(al["a"].(string), al["t"].(string))
	}
	var ts *httptest.Server
	if useHTTP {
		ts = httptest.NewServer(srv)
		defer ts.Close()
	}
	mb, _ := json.Marshal(row["req"].(string))
	params := []string{`,"params":[]`, ``, `,"params":null`}[rng.Intn(3)]
	body := fmt.Sprintf(`{"jsonrpc":"2.0","id":%d,"method":%s%s}`, 1+rng.Intn(99), mb, params)
	reply := c12Post(srv, ts, body)
	code, ok := c12Code(reply)
	if !ok {
		code = -1
	}
	return map[string]interface{}{"ran": c12RanOf(cnt), "code": code}
}

func c12Client(rng *rand.Rand, row map[string]interface{}) map[string]interface{} {
	fmtS := row["fmtS"].(string)
	fmtC := fmtS
	tagged := row["tagged"].(bool)
	if tagged {
		fmtC = row["fmtC"].(string)
	}
	ns, m := row["ns"].(string), row["m"].(string)
	srv := jsonrpc.NewServer(jsonrpc.WithServerMethodNameFormatter(c12Formatter(fmtS)))
	cnt := map[string]int{}
	srv.Register(ns, &dispH{ns: ns, cnt: cnt})
	if fmtS == "ns.orig" || fmtS == "ns.lower" || fmtS == "custom" {
		srv.Register("Z"+ns, &dispH{ns: "Z" + ns, cnt: cnt}) // a sibling namespace must never be reached
	}
	errT := reflect.TypeOf((*error)(nil)).Elem()
	ft := reflect.FuncOf(nil, []reflect.Type{errT}, false)
	var fields []reflect.StructField
	for _, name := range []string{"Foo", "Bar"} {
		sf := reflect.StructField{Name: name, Type: ft}
		if tagged {
			sf.Tag = reflect.StructTag(fmt.Sprintf(`rpc_method:%q`, c12Formatter(fmtS)(ns, name)))
		}
		fields = append(fields, sf)
	}
	out := reflect.New(reflect.StructOf(fields))
	closer, err := jsonrpc.NewCustomClient(ns, []interface{}{out.Interface()}, func(ctx context.Context, body []byte) (io.ReadCloser, error) {
		var buf bytes.Buffer
		srv.HandleRequest(ctx, bytes.NewReader(body), &buf)
		return io.NopCloser(&buf), nil
	}, jsonrpc.WithMethodNameFormatter(c12Formatter(fmtC)))
	if err != nil {
		return map[string]interface{}{"ran": []string{"none", "none"}, "code": -2}
	}
	defer closer()
	res := out.Elem().FieldByName(m).Call(nil)
	code := 0
	if e := res[0].Interface(); e != nil {
		code = -3
		if je, ok := e.(*jsonrpc.JSONRPCError); ok {
			code = int(je.Code)
		}
	}
	return map[string]interface{}{"ran": c12RanOf(cnt), "code": code}
}

// ---- arity rows

type arStruct struct{ X int }

type arH struct{ ran int }

func (h *arH) M0()                                                           { h.ran++ }
func (h *arH) M1(a int)                                                      { h.ran++ }
func (h *arH) M2(a string, b int)                                            { h.ran++ }
func (h *arH) M3(a arStruct, b []int, c bool)                                { h.ran++ }
func (h *arH) C0(ctx context.Context)                                        { h.ran++ }
func (h *arH) C1(ctx context.Context, a []string)                            { h.ran++ }
func (h *arH) C2(ctx context.Context, a bool, b *arStruct)                   { h.ran++ }
func (h *arH) C3(ctx context.Context, a float64, b string, c map[string]int) { h.ran++ }

type arParam struct {
	typ       reflect.Type
	good, bad []string
}

var arInt = arParam{reflect.TypeOf(0), []string{`5`, `-3`, `0`, `null`}, []string{`"x"`, `1.5`, `true`, `{}`, `[]`, `99999999999999999999`}}
var arString = arParam{reflect.TypeOf(""), []string{`"s"`, `""`, `null`, `"<&>"`}, []string{`5`, `true`, `{}`, `["a"]`}}
var arStructP = arParam{reflect.TypeOf(arStruct{}), []string{`{"X":1}`, `{}`, `null`, `{"Y":2}`}, []string{`5`, `"s"`, `[]`, `{"X":"s"}`}}
var arInts = arParam{reflect.TypeOf([]int{}), []string{`[1,2]`, `[]`, `null`}, []string{`5`, `{"a":1}`, `["x"]`, `"12"`}}
var arBool = arParam{reflect.TypeOf(true), []string{`true`, `false`, `null`}, []string{`1`, `"true"`, `[]`}}
var arStrs = arParam{reflect.TypeOf([]string{}), []string{`["a"]`, `[]`, `null`}, []string{`"a"`, `[1]`, `{}`}}
var arPtr = arParam{reflect.TypeOf(&arStruct{}), []string{`{"X":3}`, `null`, `{}`}, []string{`[1]`, `"x"`, `{"X":[]}`}}
var arFloat = arParam{reflect.TypeOf(1.5), []string{`1.5`, `-0`, `1e308`, `null`}, []string{`"1"`, `true`, `[]`, `1e999`}}
var arMap = arParam{reflect.TypeOf(map[string]int{}), []string{`{"a":1}`, `{}`, `null`}, []string{`[]`, `{"a":"b"}`, `3`}}

var arMethods = map[string][]arParam{
	"M0": {}, "M1": {arInt}, "M2": {arString, arInt}, "M3": {arStructP, arInts, arBool},
	"C0": {}, "C1": {arStrs}, "C2": {arBool, arPtr}, "C3": {arFloat, arString, arMap},
}

func arDecodes(p arParam, js string) bool {
	v := reflect.New(p.typ)
	return json.NewDecoder(strings.NewReader(js)).Decode(v.Interface()) == nil
}

func c12Arity(rng *rand.Rand, row map[string]interface{}, useHTTP bool) (map[string]interface{}, error) {
	k := int(row["k"].(float64))
	n := int(row["n"].(float64))
	name := fmt.Sprintf("M%d", k)
	if row["ctx"].(bool) {
		name = fmt.Sprintf("C%d", k)
	}
	ps := arMethods[name]
	bad := map[int]bool{}
	for _, b := range row["bad"].([]interface{}) {
		bad[int(b.(float64))] = true
	}
	var params string
	switch row["shape"].(string) {
	case "absent":
		params = ""
	case "null":
		params = `,"params":null`
	case "object":
		params = []string{`,"params":{}`, `,"params":{"a":1}`, `,"params":"x"`, `,"params":7`}[rng.Intn(4)]
	case "array":
		var vals []string
		for i := 1; i <= n; i++ {
			var v string
			if i <= k {
				p := ps[i-1]
				if bad[i] {
					v = p.bad[rng.Intn(len(p.bad))]
				} else {
					v = p.good[rng.Intn(len(p.good))]
				}
				if arDecodes(p, v) == bad[i] {
					return nil, fmt.Errorf("palette value %s for %v misclassified (encoding/json oracle disagrees)", v, p.typ)
				}
			} else {
				v = []string{`1`, `"extra"`, `null`, `{}`}[rng.Intn(4)]
			}
			vals = append(vals, v)
		}
		params = `,"params":[` + strings.Join(vals, ",") + `]`
	}
	h := &arH{}
	srv := jsonrpc.NewServer()
	srv.Register("T", h)
	var ts *httptest.Server
	if useHTTP {
		ts = httptest.NewServer(srv)
		defer ts.Close()
	}
	body := fmt.Sprintf(`{"jsonrpc":"2.0","id":%d,"method":"T.%s"%s}`, 1+rng.Intn(99), name, params)
	reply := c12Post(srv, ts, body)
	code, ok := c12Code(reply)
	res := "ok"
	switch {
	case !ok:
		res = "malformed"
	case code == -32602:
		res = "arity"
	case code != 0:
		res = "err"
	}
	if res != "ok" && h.ran == 0 {
		// the same rejected call as a notification (no id), alone and as a batch element: it must not reach the handler either
		// (whatever it executes is added to "ran")
		nb := fmt.Sprintf(`{"jsonrpc":"2.0","method":"T.%s"%s}`, name, params)
		c12Post(srv, ts, nb)
		c12Post(srv, ts, "["+nb+","+nb+"]")
	}
	return map[string]interface{}{"ran": h.ran, "res": res}, nil
}

func runC12(env *Env) error {
	rows, err := readNDJSON(env.In)
	if err != nil {
		return err
	}
	rng := rand.New(rand.NewSource(env.Seed))
	n := 0
	for _, r := range rows {
		row := r["row"].(map[string]interface{})
		reps := 1
		switch row["kind"] {
		case "client":
			reps = 2
		case "arity":
			reps = 6
			if env.Tier == "thorough" {
				reps = 40
			}
		}
		for k := 0; k < reps; k++ {
			var obs map[string]interface{}
			switch row["kind"] {
			case "name":
				obs = c12Name(rng, row, rng.Intn(50) == 0)
			case "client":
				obs = c12Client(rng, row)
			case "arity":
				obs, err = c12Arity(rng, row, k%5 == 4)
				if err != nil {
					return err
				}
			}
			n++
			env.W.Emit(map[string]interface{}{"row": row, "obs": obs, "n": n})
		}
	}
	return nil
}
