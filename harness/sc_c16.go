package main

import (
	"context"
	"math/rand"
	"sync"
	"time"
)

func init() { scenarios["c16.reverse"] = scC16Reverse }

// c16.reverse: k clients connected at once, each issuing concurrent forward calls whose handlers call back into the
// client (direct name, alias, method tag); every reverse call must be answered by the client being served. Then one
// client's connection is lost at a chosen point of a reverse exchange: its pending reverse call fails, it does not block.
func scC16Reverse(w *World, a Args, rng *rand.Rand) error {
	applyDelays(w, a)
	k := a.Int("clients", 3)
	per := a.Int("calls", 4)
	http := a.Str("transport", "ws") == "http"
	names := []string{"A", "B", "C", "D"}[:k]
	clients := []*Client{}
	for i, n := range names {
		c, err := w.NewClient(ClientOpts{Name: n, NoPing: true, Reverse: true, HTTP: http, NoReconnect: true, Alias2: a.Bool("alias2") && i%2 == 1})
		if err != nil {
			return err
		}
		clients = append(clients, c)
	}
	var wg sync.WaitGroup
	for ci, c := range clients {
		for j := 0; j < per; j++ {
			tok := 100*(ci+1) + j
			w.Plan(tok, &Plan{})
			wg.Add(1)
			go func(c *Client, tok int) {
				defer wg.Done()
				time.Sleep(time.Duration(rng.Intn(500)) * time.Microsecond)
				c.Call(context.Background(), "callback", tok)
			}(c, tok)
		}
	}
	if a.Bool("notifycb") && !http {
		// notifications whose handlers call back into the client that sent them
		for ci, c := range clients {
			tok := 100*(ci+1) + 60
			w.Plan(tok, &Plan{})
			wg.Add(1)
			go func(c *Client, tok int) { defer wg.Done(); c.Call(context.Background(), "callbacknotify", tok) }(c, tok)
		}
	}
	done := make(chan struct{})
	go func() { wg.Wait(); close(done) }()
	waitCh(done, patience(4*time.Second))
	if a.Bool("notifycb") && !http {
		// the notification handlers report how their reverse calls went
		dl := time.Now().Add(patience(3 * time.Second))
		for time.Now().Before(dl) {
			n := 0
			for _, e := range w.Rec.Events() {
				if e["ev"] == "RevNotifyResult" {
					n++
				}
			}
			if n >= len(clients) {
				break
			}
			time.Sleep(5 * time.Millisecond)
		}
	}
	if lose := a.Str("lose", ""); lose != "" && !http {
		// the first client's connection goes away at a chosen point of a reverse exchange
		victim := clients[0]
		var vpc *PConn
		for _, pc := range w.Proxy.Conns() {
			if pc.ID == 1 {
				vpc = pc
			}
		}
		tok := 190
		w.Plan(tok, &Plan{WaitCtx: lose == "before"})
		if lose == "before" || lose == "queued" {
			w.ArmCause() // the handler's patience runs from the moment the connection is taken away, not from its start
			defer w.MarkCause()
		}
		switch lose {
		case "before": // the handler only calls back after the connection is gone
			go victim.CallT("callbackafter", tok, patience(3*time.Second))
			w.WaitRunning(tok, time.Second)
			w.MarkCause()
			w.Rec.Emit("WireFault", "conn", 1, "fault", "kill/fin", "dir", "both", "frame", 0)
			vpc.Kill("fin")
		case "queued": // reverse calls queue up behind a large one the client is slow to read; then the connection is reset
			vpc.Stall(S2C, true)
			go func() {
				ctx, cancel := context.WithTimeout(context.Background(), patience(4*time.Second))
				defer cancel()
				victim.Call(ctx, "callbackmany", tok, 12, 16<<20)
			}()
			w.WaitRunning(tok, time.Second)
			time.Sleep(400 * time.Millisecond) // the large reverse request has been rendered and is stuck in the write by now
			w.Release(tok)                     // the small reverse calls are issued
			time.Sleep(100 * time.Millisecond)
			w.MarkCause()
			w.Rec.Emit("WireFault", "conn", 1, "fault", "kill/rst", "dir", "both", "frame", 0)
			vpc.Kill("rst")
			time.Sleep(100 * time.Millisecond)
		case "request": // the reverse request frame (server to client) is cut
			vpc.AddRule(&Rule{Dir: S2C, Frame: 0, Pos: a.Str("pos", "cut-payload")})
			go victim.CallT("callback", tok, patience(3*time.Second))
		case "response": // the reverse response frame (client to server) is cut: c2s frame after the forward request
			n := vpc.Msgs(C2S)
			vpc.AddRule(&Rule{Dir: C2S, Frame: n + 2, Pos: a.Str("pos", "cut-payload")})
			go victim.CallT("callback", tok, patience(3*time.Second))
		}
		time.Sleep(30 * time.Millisecond)
		hd := make(chan struct{})
		go func() { w.handlerWG.Wait(); close(hd) }()
		if !waitCh(hd, patience(3*time.Second)) {
			w.Rec.Emit("RevCallEnd", "call", tok, "failed", false, "blocked", true)
		}
	}
	// everybody else is still fine
	for ci, c := range clients {
		if ci == 0 && a.Str("lose", "") != "" {
			continue
		}
		tok := 100*(ci+1) + 50
		w.Plan(tok, &Plan{})
		c.CallT("callback", tok, patience(2*time.Second))
	}
	w.Quiesce(clients[len(clients)-1], 1000, 2*time.Second)
	return nil
}
