package main

import (
	"bufio"
	"encoding/json"
	"os"
	"sync"

	logging "github.com/ipfs/go-log/v2"
)

// TraceWriter writes one JSON object per line. TLC's Json module rejects null, so callers
// must never put nil values into events (use absent fields or sentinels).
type TraceWriter struct {
	mu sync.Mutex
	f  *os.File
	w  *bufio.Writer
	n  int
}

func NewTraceWriter(path string) (*TraceWriter, error) {
	f, err := os.Create(path)
	if err != nil {
		return nil, err
	}
	return &TraceWriter{f: f, w: bufio.NewWriterSize(f, 1<<20)}, nil
}

// Emit writes one event.
func (t *TraceWriter) Emit(ev map[string]interface{}) {
	b, err := json.Marshal(ev)
	if err != nil {
		panic(err)
	}
	t.mu.Lock()
	t.w.Write(b)
	t.w.WriteByte('\n')
	t.n++
	t.mu.Unlock()
}

func (t *TraceWriter) Count() int { t.mu.Lock(); defer t.mu.Unlock(); return t.n }

func (t *TraceWriter) Flush() { t.mu.Lock(); t.w.Flush(); t.mu.Unlock() }

func (t *TraceWriter) Close() error {
	t.mu.Lock()
	defer t.mu.Unlock()
	if err := t.w.Flush(); err != nil {
		return err
	}
	return t.f.Close()
}

// readNDJSON loads a table produced by TLC (ndJsonSerialize).
func readNDJSON(path string) ([]map[string]interface{}, error) {
	f, err := os.Open(path)
	if err != nil {
		return nil, err
	}
	defer f.Close()
	var out []map[string]interface{}
	sc := bufio.NewScanner(f)
	sc.Buffer(make([]byte, 1<<20), 1<<26)
	for sc.Scan() {
		if len(sc.Bytes()) == 0 {
			continue
		}
		var m map[string]interface{}
		if err := json.Unmarshal(sc.Bytes(), &m); err != nil {
			return nil, err
		}
		out = append(out, m)
	}
	return out, sc.Err()
}

func quietLogs() {
	// the library logs every rejected request; keep the harness output readable
	logging.SetAllLoggers(logging.LevelFatal)
}

func strs(v interface{}) []string {
	a, _ := v.([]interface{})
	out := make([]string, 0, len(a))
	for _, x := range a {
		out = append(out, x.(string))
	}
	return out
}
