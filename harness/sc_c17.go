package main

import (
	"context"
	"math/rand"
	"sync"
	"time"

	jsonrpc "github.com/filecoin-project/go-jsonrpc"
)

func init() { scenarios["c17.keepalive"] = scC17Keepalive }

// c17.keepalive: millisecond-scale keepalive settings with a safety margin (timeout / ping >= 6). Phase 1 (healthy):
// a call lasting several timeouts, an idle gap of several timeouts, a sparse subscription - nothing may fail and the
// client may not redial. Phase 2 (optional): the link turns into a black hole at a chosen point of the workload; pending
// calls must fail with the connection error and a redial must start within a generous multiple of the timeout.
func scC17Keepalive(w *World, a Args, rng *rand.Rand) error {
	ping := time.Duration(a.Int("pingms", 15)) * time.Millisecond
	timeout := time.Duration(a.Int("timeoutms", 120)) * time.Millisecond
	A, err := w.NewClient(ClientOpts{Name: "A", Ping: ping, Timeout: timeout, BackoffMin: 5 * time.Millisecond, BackoffMax: 20 * time.Millisecond})
	if err != nil {
		return err
	}
	var wg sync.WaitGroup
	long := time.Duration(a.Float("longx", 3) * float64(timeout))
	// a call that lasts several timeouts (the handler is released by the scenario)
	w.Plan(1, &Plan{Gated: true})
	wg.Add(1)
	go func() { defer wg.Done(); A.Call(context.Background(), "unary", 1) }()
	// a sparse subscription spanning the whole phase
	step := make(chan struct{}, 8)
	w.Plan(3, &Plan{Step: step, NoClose: true})
	sd := make(chan struct{})
	wg.Add(1)
	go func() {
		defer wg.Done()
		ch, out := A.Subscribe(context.Background(), 3, 4, "")
		if out == "ok" && ch != nil {
			w.Consume(3, ch, nil, sd)
		} else {
			close(sd)
		}
	}()
	step <- struct{}{}
	time.Sleep(long / 2)
	step <- struct{}{}
	time.Sleep(long / 2)
	w.Release(1) // the long call ends
	if ms := a.Int("stallwritems", 0); ms > 0 {
		// a large response is being written to a peer that does not read for a while (longer than the 1 s the ping handler waits
		// for the writer): pings keep arriving meanwhile; the link is healthy and must survive
		pc := w.Proxy.Last()
		pc.Stall(S2C, true)
		w.Plan(9, &Plan{})
		d9 := make(chan struct{})
		go func() { A.Call(context.Background(), "big", 9, 8<<20); close(d9) }()
		time.Sleep(time.Duration(ms) * time.Millisecond)
		pc.Stall(S2C, false)
		waitCh(d9, patience(5*time.Second))
	}
	// idle gap: nothing but keepalive traffic
	time.Sleep(time.Duration(a.Float("idlex", 3) * float64(timeout)))
	A.CallT("unary", 2, 2*time.Second)
	w.Rec.Emit("PhaseEnd", "phase", "healthy")
	if at := a.Str("blackhole", ""); at != "" {
		// what is pending when the peer falls silent
		w.Plan(5, &Plan{Gated: true})
		pend := make(chan string, 1)
		go func() { pend <- A.Call(context.Background(), "unary", 5) }()
		w.WaitRunning(5, time.Second)
		stopSteady := make(chan struct{})
		if at == "steady" { // the application keeps calling faster than the timeout
			go func() {
				for i := 0; ; i++ {
					select {
					case <-stopSteady:
						return
					case <-time.After(timeout / 5):
						tok := 400 + i
						w.Plan(tok, &Plan{})
						go A.Call(context.Background(), "unary", tok)
					}
				}
			}()
		}
		pc := w.Proxy.Last()
		t0 := time.Now()
		pc.Blackhole()
		bound := time.Duration(a.Float("boundx", 6)*float64(timeout)) + 300*time.Millisecond
		failed, redial := false, false
		var took time.Duration
		dl := time.Now().Add(bound)
		for time.Now().Before(dl) && !(failed && redial) {
			select {
			case o := <-pend:
				failed = o == "conn"
				took = time.Since(t0)
				if !failed {
					dl = time.Now()
				}
			default:
			}
			for _, e := range w.Rec.Events() {
				if e["ev"] == "DialStart" && e["first"] == false {
					redial = true
				}
			}
			time.Sleep(time.Millisecond)
		}
		close(stopSteady)
		w.Rec.Emit("BlackholeOutcome", "at", at, "pendingFailed", failed, "redial", redial, "tookms", int(took/time.Millisecond), "boundms", int(bound/time.Millisecond))
		w.Release(5)
		// the client heals on a fresh connection
		dl = time.Now().Add(patience(2 * time.Second))
		for tok := 6; tok < 300 && time.Now().Before(dl); tok += 10 {
			if o := A.CallT("unary", tok, patience(time.Second)); o == "ok" || o == "pending" {
				break
			}
			time.Sleep(5 * time.Millisecond)
		}
	}
	if a.Bool("afterheal") {
		// the reconnected link must be as healthy as the first one: a long call and an idle gap again
		w.Rec.Emit("PhaseStart", "phase", "healthy")
		w.Plan(7, &Plan{Gated: true})
		d7 := make(chan struct{})
		go func() { A.Call(context.Background(), "unary", 7); close(d7) }()
		time.Sleep(time.Duration(a.Float("longx", 3) * float64(timeout)))
		w.Release(7)
		waitCh(d7, patience(2*time.Second))
		time.Sleep(time.Duration(a.Float("idlex", 3) * float64(timeout)))
		A.CallT("unary", 8, 2*time.Second)
		w.Rec.Emit("PhaseEnd", "phase", "healthy")
	}
	w.Release(3)
	waitCh(sd, patience(2*time.Second))
	done := make(chan struct{})
	go func() { wg.Wait(); close(done) }()
	waitCh(done, patience(2*time.Second))
	w.Quiesce(A, 1000, 2*time.Second)
	return nil
}

var _ = jsonrpc.WithTimeout
