package main

import (
	"context"
	"errors"
	"fmt"
	"math"
	"net"
	"net/http"
	"net/http/httptest"
	"strings"
	"sync"
	"time"

	jsonrpc "github.com/filecoin-project/go-jsonrpc"
	"github.com/gorilla/websocket"
)

// World: one real server, a frame-aware proxy and any number of real clients in one process, with harness handlers
// that the scenario script controls and that log the API-level events of DESIGN.md Appendix D.

type ctxKey string

const srvConnKey ctxKey = "srvconn"

type Plan struct {
	WaitCtx    bool          // handler waits for its context to be cancelled (reports CtxMissing if that never happens)
	ReactDelay time.Duration // how long the handler takes to return after its context was cancelled
	Gated      bool          // handler waits for Release(tok) (or ctx.Done)
	Outcome    string        // ok | err | panic:<kind>
	release    chan struct{}
	// streams
	Step       chan struct{} // if non-nil, one receive per value
	NoClose    bool          // keep the stream open until the context is cancelled (or Release)
	NoCloseMs  int           // extra patience for NoClose streams
	CloseEarly int           // close after that many values (0: after all)
}

type World struct {
	Rec   *Recorder
	Srv   *jsonrpc.RPCServer
	TS    *httptest.Server
	Proxy *Proxy

	mu          sync.Mutex
	plans       map[int]*Plan
	running     map[int]int // token -> active handler executions
	execs       map[int]int
	srvConnN    int
	srvCancel   map[int]context.CancelFunc
	srvRemote   map[int]string // remote address of each accepted connection (the library labels its goroutines with it)
	clients     map[string]*Client
	started     map[int]bool
	ended       map[int]bool
	dialGate    chan struct{}
	handlerWG   sync.WaitGroup
	revOpt      bool
	srvOpts     []jsonrpc.ServerOption
	prevRelease map[int]chan struct{}
	causeCh     chan struct{} // see ArmCause
}

type API struct {
	Unary         func(ctx context.Context, tok int) (int, error)
	Notify        func(ctx context.Context, tok int) error        `notify:"true"`
	Retry         func(ctx context.Context, tok int) (int, error) `retry:"true"`
	RetryNC       func(tok int) (int, error)                      `retry:"true"`  // retry-tagged, no context parameter
	RetryFalse    func(ctx context.Context, tok int) (int, error) `retry:"false"` // the tag is there, but it says no
	Raw           func(ctx context.Context, p jsonrpc.RawParams) (int, error)
	Sub           func(ctx context.Context, tok int, n int) (<-chan [2]int, error)
	SubOnly       func(ctx context.Context, tok int, n int) <-chan [2]int           // a method whose only result is the channel
	SubF          func(ctx context.Context, tok int, n int) (<-chan float64, error) // a stream with a value that cannot be encoded (NaN)
	Big           func(ctx context.Context, tok int, size int) (string, error)
	BigReq        func(ctx context.Context, tok int, pad string) (int, error)
	Panic         func(ctx context.Context, tok int, kind string) (int, error)
	PanicNotify   func(ctx context.Context, tok int, kind string) error `notify:"true"`
	PanicSub      func(ctx context.Context, tok int, kind string) (<-chan [2]int, error)
	CallBack      func(ctx context.Context, tok int) (string, error)
	CallBackN     func(ctx context.Context, tok int) error `notify:"true"` // a notification whose handler calls back into the client
	CallBackMany  func(ctx context.Context, tok int, n int, pad int) (string, error)
	CallBackBig   func(ctx context.Context, tok int, size int) (int, error)
	CallBackPanic func(ctx context.Context, tok int, kind string) (string, error)
	CallBackAfter func(ctx context.Context, tok int) (string, error)
}

// RevAPI is what the server calls back on the client.
type RevAPI struct {
	Who      func(ctx context.Context, tok int) (string, error)
	WhoAlias func(ctx context.Context, tok int) (string, error)             // resolved through a client-side handler alias
	WhoTag   func(ctx context.Context, tok int) (string, error)             `rpc_method:"R.Who"` // method tag naming the client-side method
	WhoPad   func(ctx context.Context, tok int, pad string) (string, error) // a reverse call with a large request
	WhoBig   func(ctx context.Context, tok int, size int) (string, error)   // a reverse call with a large response
	WhoRetry func(ctx context.Context, tok int) (string, error)             `retry:"true"` // a retry-tagged reverse method
}

type RH struct {
	w    *World
	name string
}

func (r *RH) Who(ctx context.Context, tok int) (string, error) {
	r.w.Rec.Emit("RevStart", "call", tok, "peer", r.name)
	defer r.w.Rec.Emit("RevEnd", "call", tok, "peer", r.name)
	return r.name, nil
}

func (r *RH) WhoRetry(ctx context.Context, tok int) (string, error) { return r.name, nil }

// Who2 is what a client configured with the second alias table routes "R.WhoAlias" to.
func (r *RH) Who2(ctx context.Context, tok int) (string, error) {
	r.w.Rec.Emit("RevStart", "call", tok, "peer", r.name)
	defer r.w.Rec.Emit("RevEnd", "call", tok, "peer", r.name)
	return r.name + "~2", nil
}

func (r *RH) WhoPad(ctx context.Context, tok int, pad string) (string, error) { return r.name, nil }
func (r *RH) WhoBig(ctx context.Context, tok int, size int) (string, error) {
	r.w.Rec.Emit("RevStart", "call", tok, "peer", r.name)
	select { // the scenario decides when the (large) answer starts to be written
	case <-r.w.plan(tok).release:
	case <-time.After(2 * time.Second):
	}
	return strings.Repeat("b", size), nil
}

type Client struct {
	alias2 bool
	Name   string
	API    API
	Closer jsonrpc.ClientCloser
	HTTP   bool
	w      *World
	mu     sync.Mutex
	socks  []*faultConn // one per successful dial
}

// Sock returns the client's current socket.
func (c *Client) Sock() *faultConn {
	c.mu.Lock()
	defer c.mu.Unlock()
	if len(c.socks) == 0 {
		return nil
	}
	return c.socks[len(c.socks)-1]
}

type H struct{ w *World }

func NewWorld(rec *Recorder, reverse bool, srvOpts ...jsonrpc.ServerOption) (*World, error) {
	w := &World{Rec: rec, plans: map[int]*Plan{}, running: map[int]int{}, execs: map[int]int{}, srvCancel: map[int]context.CancelFunc{},
		clients: map[string]*Client{}, started: map[int]bool{}, ended: map[int]bool{}, revOpt: reverse}
	if reverse {
		srvOpts = append(srvOpts, jsonrpc.WithReverseClient[RevAPI]("R"))
	}
	w.Srv = jsonrpc.NewServer(srvOpts...)
	w.Srv.Register("H", &H{w})
	w.TS = httptest.NewServer(http.HandlerFunc(func(rw http.ResponseWriter, r *http.Request) {
		w.mu.Lock()
		w.srvConnN++
		n := w.srvConnN
		ctx, cancel := context.WithCancel(context.WithValue(r.Context(), srvConnKey, n))
		isWS := strings.Contains(strings.ToLower(r.Header.Get("Connection")), "upgrade")
		if isWS {
			w.srvCancel[n] = cancel
			if w.srvRemote == nil {
				w.srvRemote = map[int]string{}
			}
			w.srvRemote[n] = r.RemoteAddr
		}
		w.mu.Unlock()
		w.Srv.ServeHTTP(rw, r.WithContext(ctx))
		cancel()
		if isWS {
			rec.Emit("ConnEnded", "srvconn", n)
		}
	}))
	var err error
	w.Proxy, err = NewProxy(w.TS.Listener.Addr().String(), rec)
	if err != nil {
		return nil, err
	}
	jsonrpc.VerifForget()
	jsonrpc.VerifSetSink(rec.Sink)
	return w, nil
}

func (w *World) Close() {
	w.Rec.OpenAll()
	w.mu.Lock()
	for _, p := range w.plans {
		if p.release != nil {
			closeOnce(p.release)
		}
	}
	cl := w.clients
	w.clients = map[string]*Client{}
	w.mu.Unlock()
	for _, c := range cl {
		if c.Closer != nil {
			w.Rec.Emit("CloserStart", "cli", c.Name) // end of scenario: whatever is cancelled from here on has a cause
			done := make(chan struct{})
			go func(c *Client) { c.Closer(); close(done) }(c)
			select {
			case <-done:
			case <-time.After(2 * time.Second):
			}
		}
	}
	w.Proxy.Close()
	w.TS.CloseClientConnections()
	done := make(chan struct{})
	go func() { w.TS.Close(); close(done) }()
	select {
	case <-done:
	case <-time.After(2 * time.Second):
	}
	jsonrpc.VerifSetSink(nil)
}

func (w *World) Plan(tok int, p *Plan) *Plan {
	if p.Outcome == "" {
		p.Outcome = "ok"
	}
	p.release = make(chan struct{})
	w.mu.Lock()
	w.plans[tok] = p
	w.mu.Unlock()
	return p
}

func (w *World) plan(tok int) *Plan {
	w.mu.Lock()
	defer w.mu.Unlock()
	p, ok := w.plans[tok]
	if !ok {
		p = &Plan{Outcome: "ok", release: make(chan struct{})}
		w.plans[tok] = p
	}
	return p
}

func (w *World) Release(tok int) { closeOnce(w.plan(tok).release) }

// Rearm makes the next execution of tok's handler wait for a new Release.
func (w *World) Rearm(tok int) {
	p := w.plan(tok)
	w.mu.Lock()
	if w.prevRelease == nil {
		w.prevRelease = map[int]chan struct{}{}
	}
	w.prevRelease[tok] = p.release
	p.release = make(chan struct{})
	p.Gated = true
	w.mu.Unlock()
}

func (w *World) Execs(tok int) int { w.mu.Lock(); defer w.mu.Unlock(); return w.execs[tok] }

func (w *World) Running(tok int) bool { w.mu.Lock(); defer w.mu.Unlock(); return w.running[tok] > 0 }

// WaitRunning waits until a handler for tok is executing.
func (w *World) WaitRunning(tok int, d time.Duration) bool {
	dl := time.Now().Add(d)
	for time.Now().Before(dl) {
		if w.Running(tok) {
			return true
		}
		time.Sleep(200 * time.Microsecond)
	}
	return false
}

func (w *World) CancelSrvConn(n int) {
	w.mu.Lock()
	c := w.srvCancel[n]
	w.mu.Unlock()
	if c != nil {
		w.Rec.Emit("SrvCancel", "srvconn", n)
		c()
	}
}

func srvConnOf(ctx context.Context) int {
	n, _ := ctx.Value(srvConnKey).(int)
	return n
}

// enter logs the start of a handler execution and returns the function that logs its end.
func (h *H) enter(ctx context.Context, tok int, method string) (*Plan, func(res string)) {
	w := h.w
	pl := w.plan(tok)
	w.mu.Lock()
	// the release channel this execution waits on is fixed at the moment it becomes visible as running
	rel := pl.release
	w.running[tok]++
	w.execs[tok]++
	w.mu.Unlock()
	snap := *pl
	snap.release = rel
	w.handlerWG.Add(1)
	w.Rec.Emit("HandlerStart", "call", tok, "srvconn", srvConnOf(ctx), "method", method, "peer", "")
	finished := make(chan struct{})
	go func() {
		select {
		case <-ctx.Done():
			// the library cancels the context after the handler returned: only a cancellation observed while the
			// handler is still active counts (finished is closed before the handler returns)
			select {
			case <-finished:
			default:
				w.Rec.Emit("HandlerCtxDone", "call", tok)
			}
		case <-finished:
		}
	}()
	return &snap, func(res string) {
		close(finished)
		w.Rec.Emit("HandlerEnd", "call", tok, "res", res)
		w.mu.Lock()
		w.running[tok]--
		w.mu.Unlock()
		w.handlerWG.Done()
	}
}

func (h *H) body(ctx context.Context, tok int, method string) (int, error) {
	p, leave := h.enter(ctx, tok, method)
	if p.WaitCtx {
		switch h.w.waitCtx(ctx, p.release, patience(2*time.Second)) {
		case "ctx":
			time.Sleep(p.ReactDelay)
		case "missing":
			h.w.Rec.Emit("CtxMissing", "call", tok)
		}
	} else if p.Gated {
		select {
		case <-p.release:
		case <-ctx.Done():
			h.w.Rec.Emit("HandlerCtxDone", "call", tok) // observed by the handler itself while it is active
		}
	}
	switch {
	case p.Outcome == "err":
		leave("err")
		return 0, fmt.Errorf("handler error %d", tok)
	case strings.HasPrefix(p.Outcome, "panic:"):
		leave("panic")
		doPanic(strings.TrimPrefix(p.Outcome, "panic:"))
	}
	leave("val")
	return tok, nil
}

func (h *H) Unary(ctx context.Context, tok int) (int, error)   { return h.body(ctx, tok, "Unary") }
func (h *H) Retry(ctx context.Context, tok int) (int, error)   { return h.body(ctx, tok, "Retry") }
func (h *H) RetryNC(ctx context.Context, tok int) (int, error) { return h.body(ctx, tok, "RetryNC") }
func (h *H) RetryFalse(ctx context.Context, tok int) (int, error) {
	return h.body(ctx, tok, "RetryFalse")
}
func (h *H) Raw(ctx context.Context, p jsonrpc.RawParams) (int, error) { return len(p), nil }
func (h *H) Notify(ctx context.Context, tok int)                       { h.body(ctx, tok, "Notify") }

func (h *H) Big(ctx context.Context, tok int, size int) (string, error) {
	p, leave := h.enter(ctx, tok, "Big")
	if p.WaitCtx {
		switch h.w.waitCtx(ctx, p.release, patience(2*time.Second)) {
		case "ctx":
			time.Sleep(p.ReactDelay)
		case "missing":
			h.w.Rec.Emit("CtxMissing", "call", tok)
		}
	} else if p.Gated {
		select {
		case <-p.release:
		case <-ctx.Done():
		}
	}
	leave("val")
	return fmt.Sprintf("%d:", tok) + strings.Repeat("x", size), nil
}

// BigReq takes a large request (several client-side write buffers).
func (h *H) BigReq(ctx context.Context, tok int, pad string) (int, error) {
	return h.body(ctx, tok, "BigReq")
}

type panicErr struct{ p *int }

func (e *panicErr) Error() string { return fmt.Sprint(*e.p) } // panics when p is nil

type panicStringer struct{ m map[string]int }

func (s panicStringer) String() string { s.m["x"] = 1; return "x" } // panics: nil map write

type customPayload struct{ A, B int }

func doPanic(kind string) {
	switch kind {
	case "string":
		panic("boom string")
	case "error":
		panic(errors.New("boom error"))
	case "nilmap":
		var m map[string]int
		m["a"] = 1
	case "nilptr":
		var p *customPayload
		_ = p.A
	case "custom":
		panic(customPayload{1, 2})
	case "int":
		panic(42)
	case "nil":
		panic(nil)
	case "badError":
		panic(&panicErr{})
	case "badStringer":
		panic(panicStringer{})
	case "index":
		var s []int
		_ = s[3]
	case "aborthandler":
		panic(http.ErrAbortHandler) // the sentinel net/http uses to abort a response quietly
	}
	panic("boom default")
}

func (h *H) Panic(ctx context.Context, tok int, kind string) (int, error) {
	_, leave := h.enter(ctx, tok, "Panic")
	if strings.HasPrefix(kind, "aftercancel:") { // the handler notices that its caller cancelled, then panics
		select {
		case <-ctx.Done():
		case <-time.After(3 * time.Second):
			h.w.Rec.Emit("CtxMissing", "call", tok)
		}
		kind = strings.TrimPrefix(kind, "aftercancel:")
	}
	leave("panic")
	doPanic(kind)
	return 0, nil
}

func (h *H) PanicNotify(ctx context.Context, tok int, kind string) {
	_, leave := h.enter(ctx, tok, "PanicNotify")
	leave("panic")
	doPanic(kind)
}

func (h *H) PanicSub(ctx context.Context, tok int, kind string) (<-chan [2]int, error) {
	_, leave := h.enter(ctx, tok, "PanicSub")
	leave("panic")
	doPanic(kind)
	return nil, nil
}

// CallBackBig: a reverse call whose response is large (the client's handler goroutine writes it through the connection's writer).
func (h *H) CallBackBig(ctx context.Context, tok int, size int) (int, error) {
	_, leave := h.enter(ctx, tok, "CallBackBig")
	defer leave("val")
	rc, ok := jsonrpc.ExtractReverseClient[RevAPI](ctx)
	if !ok {
		return 0, nil
	}
	rctx, cancel := context.WithTimeout(context.Background(), patience(5*time.Second))
	defer cancel()
	s, err := rc.WhoBig(rctx, tok, size)
	if err != nil {
		return 0, fmt.Errorf("reverse call failed: %w", err)
	}
	return len(s), nil
}

// CallBackMany: one reverse call with a large request (it keeps the connection's writer busy if the peer is slow to read),
// then n small ones queueing up behind it; every one of them must end (answer or error), whatever happens to the connection.
func (h *H) CallBackMany(ctx context.Context, tok int, n int, pad int) (string, error) {
	p, leave := h.enter(ctx, tok, "CallBackMany")
	defer leave("val")
	rc, ok := jsonrpc.ExtractReverseClient[RevAPI](ctx)
	if !ok {
		return "no-reverse-client", nil
	}
	var wg sync.WaitGroup
	one := func(f func() error) {
		wg.Add(1)
		go func() {
			defer wg.Done()
			res := make(chan error, 1)
			go func() { res <- f() }()
			if err, ok := h.w.waitErr(res, patience(3*time.Second)); ok {
				h.w.Rec.Emit("RevCallEnd", "call", tok, "failed", err != nil)
			} else {
				h.w.Rec.Emit("RevCallEnd", "call", tok, "failed", false, "blocked", true)
			}
		}()
	}
	one(func() error { _, err := rc.WhoPad(context.Background(), tok, strings.Repeat("p", pad)); return err })
	select { // the scenario says when the large request is on its way (the connection's writer is busy with it)
	case <-p.release:
	case <-time.After(2 * time.Second):
	}
	for i := 0; i < n; i++ {
		one(func() error { _, err := rc.Who(context.Background(), tok); return err })
	}
	wg.Wait()
	return "many", nil
}

// CallBackN: the handler of a notification makes a reverse call; the client serving it is connected, so it is answered.
func (h *H) CallBackN(ctx context.Context, tok int) {
	_, leave := h.enter(ctx, tok, "CallBackN")
	defer leave("val")
	rc, ok := jsonrpc.ExtractReverseClient[RevAPI](ctx)
	if !ok {
		return
	}
	res := make(chan error, 1)
	go func() { _, err := rc.Who(context.Background(), tok); res <- err }()
	select {
	case err := <-res:
		h.w.Rec.Emit("RevNotifyResult", "call", tok, "ok", err == nil)
	case <-time.After(patience(2 * time.Second)):
		h.w.Rec.Emit("RevNotifyResult", "call", tok, "ok", false)
	}
}

func (h *H) CallBack(ctx context.Context, tok int) (string, error) {
	_, leave := h.enter(ctx, tok, "CallBack")
	rc, ok := jsonrpc.ExtractReverseClient[RevAPI](ctx)
	if !ok {
		leave("val")
		return "no-reverse-client", nil
	}
	var who string
	var err error
	switch tok % 3 {
	case 0:
		who, err = rc.Who(ctx, tok)
	case 1:
		who, err = rc.WhoAlias(ctx, tok)
	default:
		who, err = rc.WhoTag(ctx, tok)
	}
	if err != nil {
		leave("err")
		return "", fmt.Errorf("reverse call failed: %w", err)
	}
	leave("val")
	return who, nil
}

// CallBackAfter waits until its context is cancelled (the connection is gone) and then calls back into the client:
// the reverse call must fail, not block.
func (h *H) CallBackAfter(ctx context.Context, tok int) (string, error) {
	p, leave := h.enter(ctx, tok, "CallBackAfter")
	rc, ok := jsonrpc.ExtractReverseClient[RevAPI](ctx)
	switch h.w.waitCtx(ctx, p.release, patience(2*time.Second)) {
	case "ctx":
		time.Sleep(p.ReactDelay)
	case "missing":
		h.w.Rec.Emit("CtxMissing", "call", tok)
	}
	if ok {
		res := make(chan error, 1)
		go func() { _, err := rc.Who(context.Background(), tok); res <- err }()
		select {
		case err := <-res:
			h.w.Rec.Emit("RevCallEnd", "call", tok, "failed", err != nil)
		case <-time.After(patience(2 * time.Second)):
			h.w.Rec.Emit("RevCallEnd", "call", tok, "failed", false, "blocked", true)
		}
		// the same through a retry-tagged reverse method: a client that is gone for good is not worth retrying for ever
		res2 := make(chan error, 1)
		go func() { _, err := rc.WhoRetry(context.Background(), tok); res2 <- err }()
		select {
		case err := <-res2:
			h.w.Rec.Emit("RevCallEnd", "call", tok, "failed", err != nil)
		case <-time.After(patience(2 * time.Second)):
			h.w.Rec.Emit("RevCallEnd", "call", tok, "failed", false, "blocked", true)
		}
	}
	leave("val")
	return "after", nil
}

// CallBackPanic calls back into the client, then panics.
func (h *H) CallBackPanic(ctx context.Context, tok int, kind string) (string, error) {
	_, leave := h.enter(ctx, tok, "CallBackPanic")
	if rc, ok := jsonrpc.ExtractReverseClient[RevAPI](ctx); ok {
		rc.Who(ctx, tok)
	}
	leave("panic")
	doPanic(kind)
	return "", nil
}

// Sub streams (tok, 1) .. (tok, n).
func (h *H) Sub(ctx context.Context, tok int, n int) (<-chan [2]int, error) {
	w := h.w
	p, leave := h.enter(ctx, tok, "Sub")
	if p.Outcome == "err" {
		leave("err")
		return nil, fmt.Errorf("handler error %d", tok)
	}
	out := make(chan [2]int)
	w.handlerWG.Add(1)
	w.mu.Lock()
	w.running[tok]++ // the stream keeps the call "active" until it ends
	w.mu.Unlock()
	go func() {
		defer w.handlerWG.Done()
		defer func() { w.mu.Lock(); w.running[tok]--; w.mu.Unlock() }()
		// the producer reports the cancellation of its context at the point where it acts on it (while the stream is still its business)
		var seenOnce sync.Once
		ctxSeen := func() { seenOnce.Do(func() { w.Rec.Emit("HandlerCtxDone", "call", tok) }) }
		last := n
		if p.CloseEarly > 0 && p.CloseEarly < n {
			last = p.CloseEarly
		}
		for i := 1; i <= last; i++ {
			if p.Step != nil {
				select {
				case <-p.Step:
				case <-p.release: // told to finish: the handler closes its stream early
					w.Rec.Emit("HandlerChanClose", "call", tok)
					close(out)
					return
				case <-ctx.Done():
					ctxSeen()
					close(out)
					return
				}
			}
			w.Rec.Emit("ChanSend", "call", tok, "i", i)
			select {
			case out <- [2]int{tok, i}:
			case <-ctx.Done():
				ctxSeen()
				close(out)
				return
			}
		}
		if p.NoClose {
			switch w.waitCtx(ctx, p.release, patience(time.Duration(p.NoCloseMs+2000)*time.Millisecond)) {
			case "ctx":
				ctxSeen()
			case "release":
				w.Rec.Emit("HandlerChanClose", "call", tok)
			case "missing":
				if p.WaitCtx {
					w.Rec.Emit("CtxMissing", "call", tok)
				}
			}
			close(out)
			return
		}
		w.Rec.Emit("HandlerChanClose", "call", tok)
		close(out)
	}()
	leave("chan")
	return out, nil
}

// SubOnly: the same stream through a method that returns nothing but the channel.
func (h *H) SubOnly(ctx context.Context, tok int, n int) <-chan [2]int {
	ch, _ := h.Sub(ctx, tok, n)
	return ch
}

// SubF: n float values of which the second is NaN (not representable in JSON: it cannot be forwarded); then the handler closes.
func (h *H) SubF(ctx context.Context, tok int, n int) (<-chan float64, error) {
	out := make(chan float64)
	h.w.handlerWG.Add(1)
	go func() {
		defer h.w.handlerWG.Done()
		defer close(out)
		for i := 1; i <= n; i++ {
			v := float64(i)
			if i == 2 {
				v = math.NaN()
			}
			select {
			case out <- v:
			case <-ctx.Done():
				return
			case <-time.After(2 * time.Second):
				return
			}
		}
	}()
	return out, nil
}

// ---------------------------------------------------------------------------------------------- clients

// faultConn is the client's own socket with a switch that makes writes fail locally while reads keep blocking
// (a connection that became unwritable before the read side noticed anything).
type faultConn struct {
	net.Conn
	mu        sync.Mutex
	failWrite bool
}

func (f *faultConn) Write(p []byte) (int, error) {
	f.mu.Lock()
	fail := f.failWrite
	f.mu.Unlock()
	if fail {
		return 0, errors.New("write: broken pipe (injected)")
	}
	return f.Conn.Write(p)
}

func (f *faultConn) FailWrites(on bool) { f.mu.Lock(); f.failWrite = on; f.mu.Unlock() }

type ClientOpts struct {
	Name        string
	HTTP        bool
	NoReconnect bool
	Errors      bool // enable error mapping (typed connection error)
	Ping        time.Duration
	Timeout     time.Duration
	BackoffMin  time.Duration
	BackoffMax  time.Duration
	Direct      bool // bypass the proxy
	Reverse     bool // register the reverse handler
	NoPing      bool
	Alias2      bool   // this client's handler alias table routes R.WhoAlias to R.Who2 instead of R.Who
	Via         string // explicit address to connect to (e.g. a TCPProxy in front of the server)
}

func (w *World) SetDialGate(on bool) {
	w.mu.Lock()
	if on {
		w.dialGate = make(chan struct{})
	} else if w.dialGate != nil {
		closeOnce(w.dialGate)
		w.dialGate = nil
	}
	w.mu.Unlock()
}

func (w *World) NewClient(o ClientOpts) (*Client, error) {
	c := &Client{Name: o.Name, HTTP: o.HTTP, w: w, alias2: o.Alias2}
	addr := w.Proxy.Addr()
	if o.Direct || o.HTTP {
		addr = w.TS.Listener.Addr().String() // the proxy only understands WebSocket traffic
	}
	if o.Via != "" {
		addr = o.Via
	}

	var opts []jsonrpc.Option
	if o.HTTP {
		opts = append(opts, jsonrpc.WithHTTPClient(&http.Client{Transport: &http.Transport{MaxIdleConnsPerHost: 4, IdleConnTimeout: 30 * time.Second}}))
	}
	if o.NoReconnect {
		opts = append(opts, jsonrpc.WithNoReconnect())
	}
	if o.Errors {
		opts = append(opts, jsonrpc.WithErrors(jsonrpc.NewErrors()))
	}
	if o.NoPing {
		opts = append(opts, jsonrpc.WithPingInterval(0), jsonrpc.WithTimeout(0))
	}
	if o.Ping > 0 && !o.NoPing {
		opts = append(opts, jsonrpc.WithPingInterval(o.Ping))
	}
	if o.Timeout > 0 && !o.NoPing {
		opts = append(opts, jsonrpc.WithTimeout(o.Timeout))
	}
	if o.BackoffMin > 0 {
		opts = append(opts, jsonrpc.WithReconnectBackoff(o.BackoffMin, o.BackoffMax))
	}
	if o.Reverse {
		target := "R.Who"
		if o.Alias2 {
			target = "R.Who2"
		}
		opts = append(opts, jsonrpc.WithClientHandler("R", &RH{w, o.Name}), jsonrpc.WithClientHandlerAlias("R.WhoAlias", target))
	}
	first := true
	opts = append(opts, jsonrpc.WithVerifConnFactory(func(orig func() (*websocket.Conn, error)) func() (*websocket.Conn, error) {
		return func() (*websocket.Conn, error) {
			if !first {
				w.mu.Lock()
				g := w.dialGate
				w.mu.Unlock()
				if g != nil {
					w.Rec.Emit("DialGate", "cli", o.Name)
					<-g
				}
			}
			w.Rec.Emit("DialStart", "cli", o.Name, "first", first)
			first = false
			// same dial as the library's own factory, but through a socket the scenario can make unwritable
			var fc *faultConn
			d := websocket.Dialer{NetDial: func(network, a string) (net.Conn, error) {
				nc, err := net.Dial(network, a)
				if err != nil {
					return nil, err
				}
				fc = &faultConn{Conn: nc}
				return fc, nil
			}, HandshakeTimeout: 5 * time.Second}
			conn, _, err := d.Dial("ws://"+addr, nil)
			if err == nil && fc != nil {
				c.mu.Lock()
				c.socks = append(c.socks, fc)
				c.mu.Unlock()
			}
			_ = orig
			w.Rec.Emit("DialEnd", "cli", o.Name, "ok", err == nil)
			return conn, err
		}
	}))
	url := "ws://" + addr
	if o.HTTP {
		url = "http://" + addr
	}
	closer, err := jsonrpc.NewMergeClient(context.Background(), url, "H", []interface{}{&c.API}, nil, opts...)
	if err != nil {
		return nil, err
	}
	c.Closer = closer
	w.mu.Lock()
	w.clients[o.Name] = c
	w.mu.Unlock()
	return c, nil
}

// CloseClient fires the closer (logged).
func (w *World) CloseClient(c *Client) bool {
	w.Rec.Emit("CloserStart", "cli", c.Name)
	done := make(chan struct{})
	go func() { c.Closer(); close(done) }()
	select {
	case <-done:
		w.Rec.Emit("CloserEnd", "cli", c.Name)
		w.mu.Lock()
		delete(w.clients, c.Name)
		w.mu.Unlock()
		return true
	case <-time.After(5 * time.Second):
		return false
	}
}

func classifyErr(err error) (string, string) {
	if err == nil {
		return "ok", ""
	}
	msg := err.Error()
	var ce *jsonrpc.RPCConnectionError
	var je *jsonrpc.JSONRPCError
	var cl *jsonrpc.ErrClient
	switch {
	case errors.As(err, &ce):
		return "conn", "typed"
	case errors.As(err, &je):
		if strings.Contains(je.Message, "websocket connection closed") || je.Code == -1111111 {
			return "conn", "generic"
		}
		if strings.Contains(strings.ToLower(je.Message), "panic") { // incl. fmt's "%!v(PANIC=...)" for payloads whose own methods panic
			return "herr", "panic"
		}
		if strings.HasPrefix(je.Message, "handler error") || strings.Contains(je.Message, "reverse call failed") {
			return "herr", "handler"
		}
		return "other", fmt.Sprintf("rpc error %d: %s", je.Code, je.Message)
	case errors.As(err, &cl):
		if strings.Contains(msg, "websocket routine exiting") {
			return "exit", ""
		}
		if strings.Contains(msg, "didn't match") {
			return "proto", "idmismatch"
		}
		return "proto", msg
	}
	return "other", msg
}

func (w *World) markStart(tok int) { w.mu.Lock(); w.started[tok] = true; w.mu.Unlock() }
func (w *World) markEnd(tok int)   { w.mu.Lock(); w.ended[tok] = true; w.mu.Unlock() }

func (w *World) Waiting() []int {
	w.mu.Lock()
	defer w.mu.Unlock()
	var out []int
	for t := range w.started {
		if !w.ended[t] {
			out = append(out, t)
		}
	}
	return out
}

func transportOf(c *Client) string {
	if c.HTTP {
		return "http"
	}
	return "ws"
}

// Call issues one unary-style call (kind: unary | retry | notify | big | panic | callback) and logs CallStart / CallEnd.
func (c *Client) Call(ctx context.Context, kind string, tok int, arg ...interface{}) (outcome string) {
	w := c.w
	w.markStart(tok)
	logKind := kind
	if kind == "retrync" {
		logKind = "retry" // same contract as any retry-tagged call
	}
	if kind == "callbacknotify" {
		logKind = "notify"
	}
	if kind == "retryfalse" {
		logKind = "unary" // retry:"false" is an untagged call as far as its contract goes
	}
	w.Rec.Emit("CallStart", "call", tok, "cli", c.Name, "kind", logKind, "transport", transportOf(c))
	var err error
	token := -1
	detail := ""
	switch kind {
	case "unary":
		token, err = c.API.Unary(ctx, tok)
	case "retry":
		token, err = c.API.Retry(ctx, tok)
	case "retrync":
		token, err = c.API.RetryNC(tok)
	case "retryfalse":
		token, err = c.API.RetryFalse(ctx, tok)
	case "notify":
		err = c.API.Notify(ctx, tok)
		token = tok
	case "big":
		var s string
		s, err = c.API.Big(ctx, tok, arg[0].(int))
		if err == nil {
			if strings.HasPrefix(s, fmt.Sprintf("%d:", tok)) && len(s) == len(fmt.Sprintf("%d:", tok))+arg[0].(int) {
				token = tok
			} else {
				token = -2
			}
		}
	case "panic":
		token, err = c.API.Panic(ctx, tok, arg[0].(string))
	case "panicnotify":
		err = c.API.PanicNotify(ctx, tok, arg[0].(string))
		token = tok
	case "callbacknotify":
		err = c.API.CallBackN(ctx, tok)
		token = tok
	case "callbackbig":
		var n int
		n, err = c.API.CallBackBig(ctx, tok, arg[0].(int))
		if err == nil && n == arg[0].(int) {
			token = tok
		}
	case "callbackmany":
		_, err = c.API.CallBackMany(ctx, tok, arg[0].(int), arg[1].(int))
	case "callbackafter":
		_, err = c.API.CallBackAfter(ctx, tok)
	case "callbackpanic":
		_, err = c.API.CallBackPanic(ctx, tok, arg[0].(string))
	case "callback":
		var s string
		s, err = c.API.CallBack(ctx, tok)
		if c.alias2 && tok%3 == 1 && err == nil { // this client's own alias table says Who2 (which answers "<name>~2")
			if s == c.Name+"~2" {
				s = c.Name
			} else {
				s = "wrong-alias-target:" + s
			}
		}
		detail = s
		if err == nil {
			token = tok
		}
	}
	outcome, d := classifyErr(err)
	if detail == "" {
		detail = d
	}
	if err != nil {
		token = -1
	}
	w.markEnd(tok)
	w.Rec.Emit("CallEnd", "call", tok, "outcome", outcome, "token", token, "detail", detail)
	return outcome
}

// CallBigReq issues a call whose request carries size bytes of padding.
func (c *Client) CallBigReq(ctx context.Context, tok int, size int) string {
	w := c.w
	w.markStart(tok)
	w.Rec.Emit("CallStart", "call", tok, "cli", c.Name, "kind", "bigreq", "transport", transportOf(c))
	v, err := c.API.BigReq(ctx, tok, strings.Repeat("p", size))
	outcome, d := classifyErr(err)
	if err != nil {
		v = -1
	}
	w.markEnd(tok)
	w.Rec.Emit("CallEnd", "call", tok, "outcome", outcome, "token", v, "detail", d)
	return outcome
}

// CallT issues a call but gives up waiting after d (the call stays outstanding and is judged at quiescence).
func (c *Client) CallT(kind string, tok int, d time.Duration) string {
	res := make(chan string, 1)
	go func() { res <- c.Call(context.Background(), kind, tok) }()
	select {
	case o := <-res:
		return o
	case <-time.After(d):
		return "pending"
	}
}

// CallT2 is CallT with a context and arguments.
func (c *Client) CallT2(ctx context.Context, kind string, tok int, d time.Duration, arg ...interface{}) string {
	res := make(chan string, 1)
	go func() { res <- c.Call(ctx, kind, tok, arg...) }()
	select {
	case o := <-res:
		return o
	case <-time.After(d):
		return "pending"
	}
}

// Subscribe issues a Sub call; the returned channel (if any) is consumed by Consume.
func (c *Client) Subscribe(ctx context.Context, tok, n int, panicKind string) (<-chan [2]int, string) {
	w := c.w
	w.markStart(tok)
	w.Rec.Emit("CallStart", "call", tok, "cli", c.Name, "kind", "sub", "transport", transportOf(c))
	var ch <-chan [2]int
	var err error
	if panicKind == "only" {
		ch = c.API.SubOnly(ctx, tok, n)
		if ch == nil {
			err = errors.New("no channel returned")
		}
	} else if panicKind != "" {
		ch, err = c.API.PanicSub(ctx, tok, panicKind)
	} else {
		ch, err = c.API.Sub(ctx, tok, n)
	}
	outcome, d := classifyErr(err)
	token := tok
	if err != nil {
		token = -1
	}
	w.markEnd(tok)
	w.Rec.Emit("CallEnd", "call", tok, "outcome", outcome, "token", token, "detail", d, "haschan", ch != nil)
	return ch, outcome
}

// Consume reads the channel to its end, logging every value; gate (optional) must yield one token per read.
func (w *World) Consume(tok int, ch <-chan [2]int, gate <-chan struct{}, done chan<- struct{}) {
	go func() {
		if done != nil {
			defer close(done)
		}
		for {
			if gate != nil {
				if _, ok := <-gate; !ok {
					gate = nil
				}
			}
			v, ok := <-ch
			if !ok {
				w.Rec.Emit("ChanClosed", "call", tok)
				return
			}
			w.Rec.Emit("ChanRecv", "call", tok, "owner", v[0], "i", v[1])
		}
	}()
}

// stuckScenarios counts scenarios that ended with outstanding calls; once a tree has shown that several times the
// remaining scenarios do not spend the full grace periods again (the verdict is already decided, keep the run short).
var stuckScenarios int

// ArmCause says that the scenario will announce the moment at which it brings about the end its handlers are waiting for
// (MarkCause).  The handlers' patience for the cancellation of their contexts then runs from that moment and not from the
// moment they started waiting: setting the scene (a blocked writer, late subscriptions) can take seconds on a loaded machine,
// and a handler that gives up before anything has happened says nothing about the library.
func (w *World) ArmCause() {
	w.mu.Lock()
	w.causeCh = make(chan struct{})
	w.mu.Unlock()
}

func (w *World) MarkCause() {
	w.mu.Lock()
	if w.causeCh != nil {
		select {
		case <-w.causeCh:
		default:
			close(w.causeCh)
		}
	}
	w.mu.Unlock()
}

// waitCtx is how a handler waits for its context: "ctx" when it was cancelled, "release" when the scenario let the handler
// go, "missing" when neither happened within d (counted from the announced cause in an armed scenario).  No goroutine is
// started here: it would inherit the handler's labels and be counted as one the connection left behind.
func (w *World) waitCtx(ctx context.Context, release <-chan struct{}, d time.Duration) string {
	w.mu.Lock()
	c := w.causeCh
	w.mu.Unlock()
	if c != nil {
		select {
		case <-ctx.Done():
			return "ctx"
		case <-release:
			return "release"
		case <-c:
		case <-time.After(30 * time.Second):
		}
	}
	select {
	case <-ctx.Done():
		return "ctx"
	case <-release:
		return "release"
	case <-time.After(d):
		return "missing"
	}
}

// waitErr waits for the outcome of a call that must not block once the scenario's cause has happened: ok is false when
// it is still outstanding d after the cause (d after now in a scenario that is not armed).
func (w *World) waitErr(res <-chan error, d time.Duration) (error, bool) {
	w.mu.Lock()
	c := w.causeCh
	w.mu.Unlock()
	if c != nil {
		select {
		case err := <-res:
			return err, true
		case <-c:
		case <-time.After(30 * time.Second):
		}
	}
	select {
	case err := <-res:
		return err, true
	case <-time.After(d):
		return nil, false
	}
}

func patience(d time.Duration) time.Duration {
	if stuckScenarios >= 3 {
		return d / 8
	}
	return d
}

// Quiesce issues a probe call on the client and records what is still outstanding.
func (w *World) Quiesce(c *Client, probeTok int, grace time.Duration) { w.QuiesceX(c, probeTok, grace) }

// QuiesceX is Quiesce with extra fields for the Quiesce event.
func (w *World) QuiesceX(c *Client, probeTok int, grace time.Duration, extra ...interface{}) {
	grace = patience(grace)
	probe := "none"
	if c != nil {
		ctx, cancel := context.WithTimeout(context.Background(), 4*time.Second)
		res := make(chan string, 1)
		go func() {
			v, err := c.API.Unary(ctx, probeTok)
			switch {
			case err == nil && v == probeTok:
				res <- "ok"
			case err == nil:
				res <- "foreign"
			default:
				o, _ := classifyErr(err)
				res <- o
			}
		}()
		select {
		case probe = <-res:
		case <-time.After(patience(5 * time.Second)):
			probe = "hung"
		}
		cancel()
	}
	// confirm before alarm: outstanding calls get a grace period, only spent when something is outstanding
	dl := time.Now().Add(grace)
	for len(w.Waiting()) > 0 && time.Now().Before(dl) {
		time.Sleep(2 * time.Millisecond)
	}
	waiting := w.Waiting()
	if len(waiting) > 0 || probe == "hung" {
		stuckScenarios++
	}
	lost := []int{}
	for _, t := range waiting {
		if !w.Running(t) {
			lost = append(lost, t)
		}
	}
	name := ""
	if c != nil {
		name = c.Name
	}
	w.Rec.Emit("Quiesce", append([]interface{}{"cli", name, "probe", probe, "waiting", intsOrEmpty(waiting), "lost", intsOrEmpty(lost)}, extra...)...)
}

func intsOrEmpty(a []int) []int {
	if a == nil {
		return []int{}
	}
	return a
}
