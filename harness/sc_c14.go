package main

import (
	"context"
	"math/rand"
	"sync"
	"time"

	jsonrpc "github.com/filecoin-project/go-jsonrpc"
)

func init() { scenarios["c14.writers"] = scC14Writers }

// c14.writers: every kind of writer at once on one connection (both directions): requests and responses from a few
// bytes to several write buffers, cancels (both paths), channel registrations / values / closes, reverse calls,
// millisecond pings on both sides, and forced reconnects. The proxy parses every frame.
func scC14Writers(w *World, a Args, rng *rand.Rand) error {
	applyDelays(w, a)
	A, err := w.NewClient(ClientOpts{Name: "A", Reverse: true, Ping: time.Duration(a.Int("pingus", 800)) * time.Microsecond, Timeout: 2 * time.Second,
		BackoffMin: 2 * time.Millisecond, BackoffMax: 6 * time.Millisecond})
	if err != nil {
		return err
	}
	w.Proxy.quiet = true
	rounds := a.Int("rounds", 3)
	var wg sync.WaitGroup
	tok := 0
	next := func() int { tok++; return tok }
	var mu sync.Mutex
	for r := 0; r < rounds; r++ {
		for i := 0; i < a.Int("n", 10); i++ {
			mu.Lock()
			t := next()
			mu.Unlock()
			kind := []string{"unary", "big", "bigreq", "sub", "cancel", "callback", "notify", "subcancel"}[rng.Intn(8)]
			wg.Add(1)
			go func(t int, kind string) {
				defer wg.Done()
				ctx, cancel := context.WithCancel(context.Background())
				defer cancel()
				switch kind {
				case "unary", "notify", "callback":
					w.Plan(t, &Plan{})
					A.Call(ctx, kind, t)
				case "big":
					w.Plan(t, &Plan{})
					A.Call(ctx, "big", t, 3000+rng.Intn(60000))
				case "bigreq":
					w.Plan(t, &Plan{})
					A.CallBigReq(ctx, t, 3000+rng.Intn(40000))
				case "cancel":
					w.Plan(t, &Plan{WaitCtx: true})
					go func() {
						if w.WaitRunning(t, time.Second) {
							w.Rec.Emit("CallerCancel", "call", t)
							cancel()
						}
					}()
					A.Call(ctx, "unary", t)
				case "sub", "subcancel":
					w.Plan(t, &Plan{NoClose: kind == "subcancel", WaitCtx: kind == "subcancel"})
					ch, out := A.Subscribe(ctx, t, 5+rng.Intn(40), "")
					if out == "ok" && ch != nil {
						d := make(chan struct{})
						w.Consume(t, ch, nil, d)
						if kind == "subcancel" {
							time.Sleep(time.Duration(rng.Intn(2000)) * time.Microsecond)
							w.Rec.Emit("CallerCancel", "call", t)
							cancel()
						}
						waitCh(d, patience(3*time.Second))
					}
				}
			}(t, kind)
			if rng.Intn(3) == 0 {
				time.Sleep(time.Duration(rng.Intn(300)) * time.Microsecond)
			}
		}
		time.Sleep(time.Duration(1+rng.Intn(4)) * time.Millisecond)
		if a.Bool("reconnect") && r < rounds-1 {
			if pc := w.Proxy.Last(); pc != nil {
				w.Rec.Emit("WireFault", "conn", pc.ID, "fault", "kill/fin", "dir", "both", "frame", 0)
				pc.Kill("fin")
			}
			time.Sleep(12 * time.Millisecond)
		}
	}
	done := make(chan struct{})
	go func() { wg.Wait(); close(done) }()
	waitCh(done, patience(6*time.Second))
	if k := a.Int("burst", 0); k > 0 {
		// k subscriptions under ONE context are cancelled at the same instant (k watcher goroutines write their cancel frames
		// at once) while the main loop is sending large requests
		ctx, cancel := context.WithCancel(context.Background())
		var bw sync.WaitGroup
		ds := []chan struct{}{}
		for i := 0; i < k; i++ {
			mu.Lock()
			t := next()
			mu.Unlock()
			w.Plan(t, &Plan{NoClose: true, WaitCtx: true})
			d := make(chan struct{})
			ds = append(ds, d)
			bw.Add(1)
			go func(t int, d chan struct{}) {
				defer bw.Done()
				ch, out := A.Subscribe(ctx, t, 2, "")
				if out == "ok" && ch != nil {
					w.Consume(t, ch, nil, d)
				} else {
					close(d)
				}
			}(t, d)
		}
		waitWG := func(d time.Duration) {
			c := make(chan struct{})
			go func() { bw.Wait(); close(c) }()
			waitCh(c, d)
		}
		waitWG(patience(3 * time.Second))
		time.Sleep(3 * time.Millisecond)
		for j := 0; j < 3; j++ {
			mu.Lock()
			t := next()
			mu.Unlock()
			w.Plan(t, &Plan{})
			bw.Add(1)
			go func(t int) { defer bw.Done(); A.CallBigReq(context.Background(), t, 200000+rng.Intn(100000)) }(t)
		}
		time.Sleep(time.Duration(rng.Intn(400)) * time.Microsecond)
		for i := 0; i < k; i++ {
			w.Rec.Emit("CallerCancel", "call", tok-2-i)
		}
		cancel()
		waitWG(patience(3 * time.Second))
		for _, d := range ds {
			waitCh(d, patience(2*time.Second))
		}
	}
	for t := 1; t <= tok; t++ {
		w.Release(t)
	}
	dl := time.Now().Add(patience(2 * time.Second))
	for t := 5000; time.Now().Before(dl); t += 10 {
		if o := A.CallT("unary", t, patience(time.Second)); o == "ok" || o == "pending" {
			break
		}
		time.Sleep(3 * time.Millisecond)
	}
	w.Quiesce(A, 1000, 2*time.Second)
	return nil
}

var _ = jsonrpc.WithPingInterval
