package main

import (
	"context"
	"errors"
	"fmt"
	"math/rand"
	"net/http"
	"net/http/httptest"
	"reflect"
	"strings"

	"github.com/filecoin-project/go-jsonrpc/auth"
)

// C19: every row of the Auth table against the real auth package.

func init() { register("c19", runC19) }

type c19Impl struct {
	ran   map[string]int
	token int
}

func (i *c19Impl) RE(ctx context.Context) error        { i.ran["RE"]++; return nil }
func (i *c19Impl) RV(ctx context.Context) (int, error) { i.ran["RV"]++; return i.token, nil }
func (i *c19Impl) WE(ctx context.Context) error        { i.ran["WE"]++; return nil }
func (i *c19Impl) WV(ctx context.Context) (int, error) { i.ran["WV"]++; return i.token, nil }
func (i *c19Impl) AE(ctx context.Context) error        { i.ran["AE"]++; return nil }
func (i *c19Impl) AV(ctx context.Context) (int, error) { i.ran["AV"]++; return i.token, nil }

var c19Fields = []struct {
	name, perm, shape string
}{{"RE", "r", "err"}, {"RV", "r", "valerr"}, {"WE", "w", "err"}, {"WV", "w", "valerr"}, {"AE", "a", "err"}, {"AV", "a", "valerr"}}

func c19PermNames(rng *rand.Rand) map[string]auth.Permission {
	pool := [][]string{{"read", "write", "admin"}, {"r", "w", "a"}, {"sign", "Sign", "sign "}, {"a", "ab", "abc"}, {"x-1", "x-2", "x-3"}}
	p := pool[rng.Intn(len(pool))]
	idx := rng.Perm(3)
	return map[string]auth.Permission{"r": auth.Permission(p[idx[0]]), "w": auth.Permission(p[idx[1]]), "a": auth.Permission(p[idx[2]])}
}

func c19Set(rng *rand.Rand, names map[string]auth.Permission, abs []string, allowNil bool) []auth.Permission {
	if len(abs) == 0 {
		if allowNil && rng.Intn(2) == 0 {
			return nil
		}
		return []auth.Permission{}
	}
	var out []auth.Permission
	for _, a := range abs {
		out = append(out, names[a])
		if rng.Intn(4) == 0 { // duplicates are harmless
			out = append(out, names[a])
		}
	}
	rng.Shuffle(len(out), func(i, j int) { out[i], out[j] = out[j], out[i] })
	return out
}

func c19Proxy(rng *rand.Rand, row map[string]interface{}) map[string]interface{} {
	names := c19PermNames(rng)
	errT := reflect.TypeOf((*error)(nil)).Elem()
	ctxT := reflect.TypeOf((*context.Context)(nil)).Elem()
	intT := reflect.TypeOf(0)
	var fields []reflect.StructField
	for _, f := range c19Fields {
		var ft reflect.Type
		if f.shape == "err" {
			ft = reflect.FuncOf([]reflect.Type{ctxT}, []reflect.Type{errT}, false)
		} else {
			ft = reflect.FuncOf([]reflect.Type{ctxT}, []reflect.Type{intT, errT}, false)
		}
		fields = append(fields, reflect.StructField{Name: f.name, Type: ft, Tag: reflect.StructTag(fmt.Sprintf(`perm:%q`, string(names[f.perm])))})
	}
	out := reflect.New(reflect.StructOf(fields))
	impl := &c19Impl{ran: map[string]int{}, token: 1 + rng.Intn(1000)}
	valid := []auth.Permission{names["r"], names["w"], names["a"]}
	dflt := c19Set(rng, names, strs(row["dflt"]), true)
	auth.PermissionedProxy(valid, dflt, impl, out.Interface())

	ctx := context.Background()
	if row["attached"].(bool) {
		ctx = auth.WithPerm(ctx, c19Set(rng, names, strs(row["caller"]), true))
	}
	var fname string
	for _, f := range c19Fields {
		if f.perm == row["required"].(string) && f.shape == row["shape"].(string) {
			fname = f.name
		}
	}
	res := out.Elem().FieldByName(fname).Call([]reflect.Value{reflect.ValueOf(ctx)})
	obs := map[string]interface{}{"val": "none"}
	var errV interface{}
	if row["shape"].(string) == "valerr" {
		v := res[0].Interface().(int)
		switch {
		case v == 0:
			obs["val"] = "zero"
		case v == impl.token:
			obs["val"] = "token"
		default:
			obs["val"] = "other"
		}
		errV = res[1].Interface()
	} else {
		errV = res[0].Interface()
	}
	switch {
	case errV == nil:
		obs["err"] = "none"
	case strings.Contains(errV.(error).Error(), "missing permission"):
		obs["err"] = "perm"
	default:
		obs["err"] = "other"
	}
	total := 0
	for n, c := range impl.ran {
		total += c
		if n != fname && c > 0 {
			total += 100 // a different method ran: not a 0/1 count any more
		}
	}
	obs["ran"] = total
	return obs
}

// c19HState is what the verifier and the next handler of one request consult / fill in.
type c19HState struct {
	th, tq   string
	okH, okQ bool
	pH, pQ   []auth.Permission
	names    map[string]auth.Permission
	verified string
	obs      map[string]interface{}
}

// c19Shared is one auth.Handler instance reused for many requests with the same token strings, so
// that any state kept across requests (caching a verdict, remembering a token) becomes observable.
type c19Shared struct {
	h   *auth.Handler
	cur *c19HState
}

func newC19Shared() *c19Shared {
	sh := &c19Shared{}
	sentinel := auth.Permission("\x00sentinel")
	sh.h = &auth.Handler{
		Verify: func(ctx context.Context, token string) ([]auth.Permission, error) {
			st := sh.cur
			switch token {
			case st.th:
				st.verified = "th"
				if st.okH {
					return st.pH, nil
				}
			case st.tq:
				st.verified = "tq"
				if st.okQ {
					return st.pQ, nil
				}
			case "":
				st.verified = "te"
			default:
				st.verified = "other"
			}
			return nil, errors.New("rejected")
		},
		Next: func(w http.ResponseWriter, r *http.Request) {
			st := sh.cur
			st.obs["next"] = true
			ctx := r.Context()
			st.obs["attached"] = !auth.HasPerm(ctx, []auth.Permission{sentinel}, sentinel)
			ps := []string{}
			for _, a := range []string{"a", "r", "w"} {
				if auth.HasPerm(ctx, nil, st.names[a]) {
					ps = append(ps, a)
				}
			}
			st.obs["perms"] = ps
			w.WriteHeader(200)
		},
	}
	return sh
}

func c19Handler(rng *rand.Rand, row map[string]interface{}, sh *c19Shared) map[string]interface{} {
	st := &c19HState{verified: "none"}
	if sh == nil {
		sh = newC19Shared()
		st.names = c19PermNames(rng)
		st.th = fmt.Sprintf("tokH%d", rng.Intn(1000))
		st.tq = fmt.Sprintf("tokQ%d", rng.Intn(1000))
	} else {
		st.names = map[string]auth.Permission{"r": "read", "w": "write", "a": "admin"}
		st.th, st.tq = "tokH", "tokQ"
	}
	verd := func(v interface{}) (bool, []auth.Permission) {
		m := v.(map[string]interface{})
		if !m["ok"].(bool) {
			return false, nil
		}
		return true, c19Set(rng, st.names, strs(m["perms"]), false)
	}
	st.okH, st.pH = verd(row["vh"])
	st.okQ, st.pQ = verd(row["vq"])
	st.obs = map[string]interface{}{"next": false, "attached": false, "perms": []string{}}
	sh.cur = st
	url := "http://example.invalid/rpc/v0"
	if row["query"].(bool) {
		url += "?token=" + st.tq
	}
	req := httptest.NewRequest("POST", url, strings.NewReader("{}"))
	switch row["hdr"].(string) {
	case "absent":
	case "empty":
		req.Header.Set("Authorization", "")
	case "bearer":
		req.Header.Set("Authorization", "Bearer "+st.th)
	case "basic":
		req.Header.Set("Authorization", "Basic "+st.th)
	case "lowercase":
		req.Header.Set("Authorization", "bearer "+st.th)
	case "nospace":
		req.Header.Set("Authorization", "Bearer"+st.th)
	case "bearerempty":
		req.Header.Set("Authorization", "Bearer ")
	}
	rec := httptest.NewRecorder()
	sh.h.ServeHTTP(rec, req)
	st.obs["status"] = rec.Code
	st.obs["verified"] = st.verified
	return st.obs
}

func runC19(env *Env) error {
	rows, err := readNDJSON(env.In)
	if err != nil {
		return err
	}
	reps := 2
	if env.Tier == "thorough" {
		reps = 12
	}
	rng := rand.New(rand.NewSource(env.Seed))
	rng.Shuffle(len(rows), func(i, j int) { rows[i], rows[j] = rows[j], rows[i] })
	shared := newC19Shared()
	n := 0
	for _, r := range rows {
		row := r["row"].(map[string]interface{})
		for k := 0; k < reps; k++ {
			var obs map[string]interface{}
			if row["kind"] == "proxy" {
				obs = c19Proxy(rng, row)
			} else {
				if k%2 == 0 {
					obs = c19Handler(rng, row, nil)
				} else {
					obs = c19Handler(rng, row, shared)
				}
			}
			n++
			env.W.Emit(map[string]interface{}{"row": row, "obs": obs, "n": n})
		}
	}
	return nil
}
