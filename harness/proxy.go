package main

import (
	"bufio"
	"encoding/binary"
	"encoding/json"
	"fmt"
	"io"
	"net"
	"strings"
	"sync"
	"time"
)

// Proxy is a frame-aware TCP proxy between a real client and a real server. It is transparent during the HTTP
// upgrade and then parses WebSocket frames in both directions. It logs every complete message (WireFrame), injects
// faults at byte positions inside chosen frames, can hold frames, and can turn into a black hole.

const (
	C2S = 0
	S2C = 1
)

var dirName = [2]string{"c2s", "s2c"}

type Rule struct {
	Dir     int
	Frame   int    // 1-based index among the data messages of that direction; 0 = the next one
	Pos     string // before | cut-hdr | cut-payload | cut-last | after | blackhole | hold | rewrite
	Style   string // fin | rst
	Payload []byte // rewrite: replaces the message (server-to-client, single unmasked frame)
	fired   bool
}

type Proxy struct {
	ln     net.Listener
	target string
	rec    *Recorder
	mu     sync.Mutex
	conns  []*PConn
	down   bool
	policy func(pc *PConn) // called for every accepted connection before any byte moves
	wg     sync.WaitGroup
	quiet  bool // log only the first channel-value frames of a connection (very long streams)
	nvals  int
}

type PConn struct {
	ID      int
	p       *Proxy
	c, s    net.Conn
	mu      sync.Mutex
	rules   []*Rule
	msgs    [2]int
	black   bool
	blackD  [2]bool // one direction only swallowed (half-open link)
	hold    [2]bool
	held    [2][][]byte
	closed  bool
	ws      bool    // upgraded
	stall   [2]bool // stop reading that direction's source socket (back-pressure reaches the writer)
	cond    *sync.Cond
	endOnce sync.Once
}

func NewProxy(target string, rec *Recorder) (*Proxy, error) {
	ln, err := net.Listen("tcp", "127.0.0.1:0")
	if err != nil {
		return nil, err
	}
	p := &Proxy{ln: ln, target: target, rec: rec}
	go p.acceptLoop()
	return p, nil
}

func (p *Proxy) Addr() string { return p.ln.Addr().String() }

func (p *Proxy) SetDown(d bool) {
	p.mu.Lock()
	p.down = d
	p.mu.Unlock()
	if d {
		p.rec.Emit("ServerDown")
	} else {
		p.rec.Emit("ServerUp")
	}
}

func (p *Proxy) SetPolicy(f func(pc *PConn)) { p.mu.Lock(); p.policy = f; p.mu.Unlock() }

func (p *Proxy) Conns() []*PConn {
	p.mu.Lock()
	defer p.mu.Unlock()
	return append([]*PConn{}, p.conns...)
}

// Last returns the most recently accepted (upgraded) connection.
func (p *Proxy) Last() *PConn {
	p.mu.Lock()
	defer p.mu.Unlock()
	if len(p.conns) == 0 {
		return nil
	}
	return p.conns[len(p.conns)-1]
}

func (p *Proxy) Close() {
	p.ln.Close()
	for _, c := range p.Conns() {
		c.Kill("fin")
	}
}

func (p *Proxy) acceptLoop() {
	for {
		c, err := p.ln.Accept()
		if err != nil {
			return
		}
		p.mu.Lock()
		down := p.down
		id := len(p.conns) + 1
		p.mu.Unlock()
		if down {
			p.rec.Emit("Accept", "conn", 0, "ok", false)
			c.Close()
			continue
		}
		s, err := net.Dial("tcp", p.target)
		if err != nil {
			p.rec.Emit("Accept", "conn", 0, "ok", false)
			c.Close()
			continue
		}
		pc := &PConn{ID: id, p: p, c: c, s: s}
		pc.cond = sync.NewCond(&pc.mu)
		p.mu.Lock()
		p.conns = append(p.conns, pc)
		pol := p.policy
		p.mu.Unlock()
		if pol != nil {
			pol(pc)
		}
		p.rec.Emit("Accept", "conn", id, "ok", true)
		go pc.pump(C2S, c, s)
		go pc.pump(S2C, s, c)
	}
}

func (pc *PConn) AddRule(r *Rule) {
	if r.Style == "" {
		r.Style = "fin"
	}
	pc.mu.Lock()
	pc.rules = append(pc.rules, r)
	pc.mu.Unlock()
}

// Kill closes the connection now.
func (pc *PConn) Kill(style string) {
	pc.mu.Lock()
	if pc.closed {
		pc.mu.Unlock()
		return
	}
	pc.closed = true
	pc.cond.Broadcast()
	pc.mu.Unlock()
	if style == "rst" {
		if t, ok := pc.c.(*net.TCPConn); ok {
			t.SetLinger(0)
		}
		if t, ok := pc.s.(*net.TCPConn); ok {
			t.SetLinger(0)
		}
	}
	pc.c.Close()
	pc.s.Close()
}

func (pc *PConn) Blackhole() {
	pc.mu.Lock()
	pc.black = true
	pc.mu.Unlock()
	pc.p.rec.Emit("WireFault", "conn", pc.ID, "fault", "blackhole", "dir", "both", "frame", 0)
}

// HalfCloseToServer sends the server a FIN (as a peer that is done sending would) while the connection stays open otherwise.
func (pc *PConn) HalfCloseToServer() {
	pc.p.rec.Emit("WireFault", "conn", pc.ID, "fault", "half-close", "dir", "c2s", "frame", 0)
	pc.mu.Lock()
	pc.blackD[C2S] = true
	pc.mu.Unlock()
	if t, ok := pc.s.(*net.TCPConn); ok {
		t.CloseWrite()
	}
}

// InjectEmptyToServer makes the server receive an empty (zero-length, final, masked) text frame from its peer.
func (pc *PConn) InjectEmptyToServer() {
	pc.p.rec.Emit("WireNote", "conn", pc.ID, "note", "empty text frame injected", "dir", "c2s")
	pc.s.Write([]byte{0x81, 0x80, 1, 2, 3, 4})
}

// BlackholeDir swallows one direction only: a half-open link (the other direction keeps being delivered).
func (pc *PConn) BlackholeDir(dir int) {
	pc.mu.Lock()
	pc.blackD[dir] = true
	pc.mu.Unlock()
	pc.p.rec.Emit("WireFault", "conn", pc.ID, "fault", "blackhole", "dir", dirName[dir], "frame", 0)
}

// InjectClose makes the client see a close frame with the given status code coming from the server, then the end of the stream.
func (pc *PConn) InjectClose(code int) {
	pc.p.rec.Emit("WireFault", "conn", pc.ID, "fault", fmt.Sprintf("close-frame-%d", code), "dir", "s2c", "frame", 0)
	pc.mu.Lock()
	pc.black = true // nothing else gets through any more
	pc.mu.Unlock()
	pc.c.Write([]byte{0x88, 0x02, byte(code >> 8), byte(code)})
	time.Sleep(2 * time.Millisecond)
	pc.Kill("fin")
}

func (pc *PConn) Hold(dir int) {
	pc.mu.Lock()
	pc.hold[dir] = true
	pc.mu.Unlock()
}

// Stall makes the proxy stop reading one direction (the sender's socket buffers fill up); Unstall resumes.
func (pc *PConn) Stall(dir int, on bool) {
	pc.mu.Lock()
	pc.stall[dir] = on
	pc.cond.Broadcast()
	pc.mu.Unlock()
}

// Release forwards up to n held frames of a direction (n < 0: all, and stop holding).
func (pc *PConn) Release(dir int, n int) int {
	pc.mu.Lock()
	defer pc.mu.Unlock()
	dst := pc.s
	if dir == S2C {
		dst = pc.c
	}
	sent := 0
	for len(pc.held[dir]) > 0 && (n < 0 || sent < n) {
		f := pc.held[dir][0]
		pc.held[dir] = pc.held[dir][1:]
		dst.Write(f)
		sent++
	}
	if n < 0 {
		pc.hold[dir] = false
	}
	return sent
}

func (pc *PConn) HeldCount(dir int) int {
	pc.mu.Lock()
	defer pc.mu.Unlock()
	return len(pc.held[dir])
}

func (pc *PConn) Msgs(dir int) int {
	pc.mu.Lock()
	defer pc.mu.Unlock()
	return pc.msgs[dir]
}

func (pc *PConn) pump(dir int, src, dst net.Conn) {
	defer pc.Kill("fin")
	br := bufio.NewReaderSize(src, 64<<10)
	// HTTP upgrade: copy header lines until the blank line
	for {
		line, err := br.ReadString('\n')
		if len(line) > 0 {
			if _, werr := dst.Write([]byte(line)); werr != nil {
				return
			}
		}
		if err != nil {
			return
		}
		if line == "\r\n" {
			break
		}
	}
	var pendingRaw []byte // raw bytes of the fragments of the message being assembled
	var msg []byte        // payload of the message being assembled
	var msgOp byte        // opcode of its first fragment
	inMsg := false
	for {
		pc.mu.Lock()
		for pc.stall[dir] && !pc.closed {
			pc.cond.Wait()
		}
		pc.mu.Unlock()
		hdr := make([]byte, 2, 14)
		if _, err := io.ReadFull(br, hdr); err != nil {
			return
		}
		fin := hdr[0]&0x80 != 0
		op := hdr[0] & 0x0f
		masked := hdr[1]&0x80 != 0
		ln := uint64(hdr[1] & 0x7f)
		switch ln {
		case 126:
			ext := make([]byte, 2)
			if _, err := io.ReadFull(br, ext); err != nil {
				return
			}
			hdr = append(hdr, ext...)
			ln = uint64(binary.BigEndian.Uint16(ext))
		case 127:
			ext := make([]byte, 8)
			if _, err := io.ReadFull(br, ext); err != nil {
				return
			}
			hdr = append(hdr, ext...)
			ln = binary.BigEndian.Uint64(ext)
		}
		var mask []byte
		if masked {
			mask = make([]byte, 4)
			if _, err := io.ReadFull(br, mask); err != nil {
				return
			}
			hdr = append(hdr, mask...)
		}
		if ln > 256<<20 {
			return
		}
		// a stall requested while this goroutine was blocked waiting for the header takes effect before the payload is
		// consumed (a large message is a single frame from the server: reading it would swallow the back-pressure)
		pc.mu.Lock()
		for pc.stall[dir] && !pc.closed {
			pc.cond.Wait()
		}
		pc.mu.Unlock()
		payload := make([]byte, ln)
		if _, err := io.ReadFull(br, payload); err != nil {
			return
		}
		raw := append(append([]byte{}, hdr...), payload...)
		plain := payload
		if masked {
			plain = make([]byte, len(payload))
			for i := range payload {
				plain[i] = payload[i] ^ mask[i%4]
			}
		}
		if op >= 8 { // control frame
			kind := map[byte]string{8: "close", 9: "ping", 10: "pong"}[op]
			pc.mu.Lock()
			black := pc.black || pc.blackD[dir]
			pc.mu.Unlock()
			if black {
				continue
			}
			pc.p.rec.Emit("WireFrame", "conn", pc.ID, "dir", dirName[dir], "kind", kind, "id", "nil", "chid", -1, "wf", fin && len(payload) <= 125)
			if _, err := dst.Write(raw); err != nil {
				return
			}
			continue
		}
		// data frame
		first := op != 0
		wfFrag := true
		if first && inMsg {
			wfFrag = false // a new message started inside an unfinished fragmented message: interleaved writers
		}
		if !first && !inMsg {
			wfFrag = false // continuation without a start
		}
		if first {
			msg, msgOp, inMsg = nil, op, true
			pc.mu.Lock()
			pc.msgs[dir]++
			pc.mu.Unlock()
		}
		msg = append(msg, plain...)
		idx := pc.Msgs(dir)
		// faults
		var rule *Rule
		pc.mu.Lock()
		if first {
			for _, r := range pc.rules {
				if !r.fired && r.Dir == dir && (r.Frame == idx || r.Frame == 0) {
					r.fired = true
					rule = r
					break
				}
			}
		}
		black := pc.black || pc.blackD[dir]
		pc.mu.Unlock()
		if rule != nil {
			switch rule.Pos {
			case "blackhole":
				pc.Blackhole()
				black = true
			case "hold":
				pc.Hold(dir)
			case "rewrite":
				if dir == S2C && fin {
					nh := []byte{0x80 | op}
					switch {
					case len(rule.Payload) < 126:
						nh = append(nh, byte(len(rule.Payload)))
					default:
						nh = append(nh, 126, byte(len(rule.Payload)>>8), byte(len(rule.Payload)))
					}
					raw = append(nh, rule.Payload...) // what the client sees; the log keeps what the server really sent
					pc.p.rec.Emit("WireFault", "conn", pc.ID, "fault", "rewrite", "dir", dirName[dir], "frame", idx)
				}
			default:
				cut := 0
				switch rule.Pos {
				case "before":
					cut = 0
				case "cut-hdr":
					cut = 1
				case "cut-payload":
					cut = len(hdr) + len(payload)/2
					if len(payload) < 2 {
						cut = len(hdr)
					}
				case "cut-last":
					cut = len(raw) - 1
				case "after":
					cut = len(raw)
				}
				if rule.Pos == "after" && fin {
					pc.logMsg(dir, msgOp, msg, wfFrag) // logged before the receiver can see it
				}
				pc.p.rec.Emit("WireFault", "conn", pc.ID, "fault", rule.Pos+"/"+rule.Style, "dir", dirName[dir], "frame", idx) // cause before effect in the log
				dst.Write(append(pendingRaw, raw[:cut]...))
				if rule.Style == "hole" { // the link falls silent in the middle of the frame instead of ending
					pc.mu.Lock()
					pc.black = true
					pc.mu.Unlock()
					pendingRaw = nil
					continue
				}
				// let bytes already written drain before the close for FIN-style faults
				if rule.Style == "fin" {
					time.Sleep(2 * time.Millisecond)
				}
				pc.Kill(rule.Style)
				return
			}
		}
		if black {
			continue // swallowed
		}
		pc.mu.Lock()
		if pc.hold[dir] {
			pc.held[dir] = append(pc.held[dir], raw)
			pc.mu.Unlock()
			if fin {
				pc.logMsg(dir, msgOp, msg, wfFrag)
				inMsg = false
			}
			continue
		}
		pc.mu.Unlock()
		// fragments of a message are held until it is complete: the message is logged once, before any of its bytes can be
		// seen by the receiver (whose reaction must come later in the trace), then forwarded in one go
		pendingRaw = append(pendingRaw, raw...)
		if !fin {
			continue
		}
		pc.logMsg(dir, msgOp, msg, wfFrag)
		inMsg = false
		out := pendingRaw
		pendingRaw = nil
		if _, err := dst.Write(out); err != nil {
			return
		}
	}
}

// logMsg classifies one complete message and records it.
func (pc *PConn) logMsg(dir int, op byte, msg []byte, fragOK bool) {
	kind, id, chid, wf := classifyMsg(msg)
	if !fragOK {
		wf = false
	}
	if kind == "chval" && pc.p.quiet && wf {
		pc.p.mu.Lock()
		pc.p.nvals++
		n := pc.p.nvals
		pc.p.mu.Unlock()
		if n > 60 {
			return
		}
	}
	if kind == "req" || kind == "notif" {
		// harness methods carry their call token as first parameter
		var f struct {
			Params []json.RawMessage `json:"params"`
		}
		var tok float64
		if json.Unmarshal(msg, &f) == nil && len(f.Params) >= 1 && json.Unmarshal(f.Params[0], &tok) == nil {
			pc.p.rec.Emit("WireFrame", "conn", pc.ID, "dir", dirName[dir], "kind", kind, "id", id, "chid", chid, "wf", wf, "len", len(msg), "tok", int(tok))
			return
		}
	}
	if kind == "resp" {
		var f struct {
			Error json.RawMessage `json:"error"`
		}
		json.Unmarshal(msg, &f)
		pc.p.rec.Emit("WireFrame", "conn", pc.ID, "dir", dirName[dir], "kind", kind, "id", id, "chid", chid, "wf", wf, "len", len(msg),
			"iserr", len(f.Error) > 0 && string(f.Error) != "null")
		return
	}
	pc.p.rec.Emit("WireFrame", "conn", pc.ID, "dir", dirName[dir], "kind", kind, "id", id, "chid", chid, "wf", wf, "len", len(msg))
}

// classifyMsg decides what a JSON-RPC message is: req / notif / resp / cancel / chval / chclose / bad.
func classifyMsg(msg []byte) (kind string, id string, chid int, wf bool) {
	chid = -1
	id = "nil"
	var f struct {
		Jsonrpc string            `json:"jsonrpc"`
		ID      json.RawMessage   `json:"id"`
		Method  *string           `json:"method"`
		Params  json.RawMessage   `json:"params"`
		Result  json.RawMessage   `json:"result"`
		Error   json.RawMessage   `json:"error"`
		Meta    map[string]string `json:"meta"`
	}
	dec := json.NewDecoder(strings.NewReader(string(msg)))
	if err := dec.Decode(&f); err != nil {
		return "bad", id, chid, false
	}
	var extra json.RawMessage
	if err := dec.Decode(&extra); err != io.EOF {
		return "bad", id, chid, false
	}
	wf = f.Jsonrpc == "2.0"
	if len(f.ID) > 0 && string(f.ID) != "null" {
		var v interface{}
		json.Unmarshal(f.ID, &v)
		switch x := v.(type) {
		case float64:
			id = fmt.Sprintf("n:%v", x)
		case string:
			id = "s:" + x
		default:
			id = "x:" + string(f.ID)
			wf = false
		}
	}
	if f.Method != nil && *f.Method != "" {
		var ps []json.RawMessage
		json.Unmarshal(f.Params, &ps)
		switch *f.Method {
		case "xrpc.cancel":
			kind = "cancel"
			if len(ps) >= 1 {
				var v interface{}
				json.Unmarshal(ps[0], &v)
				switch x := v.(type) {
				case float64:
					id = fmt.Sprintf("n:%v", x)
				case string:
					id = "s:" + x
				}
			}
		case "xrpc.ch.val":
			kind = "chval"
			if len(ps) >= 1 {
				var c float64
				json.Unmarshal(ps[0], &c)
				chid = int(c)
			}
			if len(ps) != 2 {
				wf = false
			}
		case "xrpc.ch.close":
			kind = "chclose"
			if len(ps) >= 1 {
				var c float64
				json.Unmarshal(ps[0], &c)
				chid = int(c)
			}
		default:
			if id == "nil" {
				kind = "notif"
			} else {
				kind = "req"
			}
		}
		if len(f.Result) > 0 || len(f.Error) > 0 {
			wf = false
		}
		return
	}
	// response
	kind = "resp"
	hasR, hasE := len(f.Result) > 0, len(f.Error) > 0 && string(f.Error) != "null"
	if hasR == hasE {
		wf = false
	}
	if id == "nil" {
		wf = false
	}
	if hasR {
		var c float64
		if json.Unmarshal(f.Result, &c) == nil {
			chid = int(c) // may be a channel id; only meaningful for subscription calls
		}
	}
	return
}

// TCPProxy is a plain byte-level proxy (used for HTTP clients): it can kill every open connection on command.
type TCPProxy struct {
	ln     net.Listener
	target string
	mu     sync.Mutex
	conns  []net.Conn
	n      int
}

func NewTCPProxy(target string) (*TCPProxy, error) {
	ln, err := net.Listen("tcp", "127.0.0.1:0")
	if err != nil {
		return nil, err
	}
	p := &TCPProxy{ln: ln, target: target}
	go func() {
		for {
			c, err := ln.Accept()
			if err != nil {
				return
			}
			s, err := net.Dial("tcp", target)
			if err != nil {
				c.Close()
				continue
			}
			p.mu.Lock()
			p.conns = append(p.conns, c, s)
			p.n++
			p.mu.Unlock()
			go func() { io.Copy(s, c); s.Close(); c.Close() }()
			go func() { io.Copy(c, s); s.Close(); c.Close() }()
		}
	}()
	return p, nil
}

func (p *TCPProxy) Addr() string  { return p.ln.Addr().String() }
func (p *TCPProxy) Accepted() int { p.mu.Lock(); defer p.mu.Unlock(); return p.n }
func (p *TCPProxy) KillAll() {
	p.mu.Lock()
	cs := p.conns
	p.conns = nil
	p.mu.Unlock()
	for _, c := range cs {
		c.Close()
	}
}
func (p *TCPProxy) Close() { p.ln.Close(); p.KillAll() }
