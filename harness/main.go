// Command verifharness drives the real go-jsonrpc code for the TLA+ conformance checks.
//
//	verifharness <driver> [-in file] [-out file] [-seed n] [-tier quick|thorough] [-arg k=v ...]
//
// Drivers read TLC-generated tables / behaviours (ndjson) and write traces (ndjson) that the
// trace specifications under /verif/spec validate. Exit status: 0 ran to completion, 3 harness
// failure (never a verdict).
package main

import (
	"flag"
	"fmt"
	"os"
	"sort"
)

type driver func(env *Env) error

var drivers = map[string]driver{}

func register(name string, d driver) { drivers[name] = d }

// Env carries the common flags.
type Env struct {
	In, Out string
	Seed    int64
	Tier    string
	Args    map[string]string
	W       *TraceWriter
}

type kvFlag map[string]string

func (k kvFlag) String() string { return fmt.Sprint(map[string]string(k)) }
func (k kvFlag) Set(s string) error {
	for i := 0; i < len(s); i++ {
		if s[i] == '=' {
			k[s[:i]] = s[i+1:]
			return nil
		}
	}
	k[s] = "1"
	return nil
}

func main() {
	if len(os.Args) < 2 {
		names := []string{}
		for n := range drivers {
			names = append(names, n)
		}
		sort.Strings(names)
		fmt.Fprintln(os.Stderr, "usage: verifharness <driver> [flags]; drivers:", names)
		os.Exit(3)
	}
	name := os.Args[1]
	d, ok := drivers[name]
	if !ok {
		fmt.Fprintln(os.Stderr, "unknown driver", name)
		os.Exit(3)
	}
	fs := flag.NewFlagSet(name, flag.ExitOnError)
	env := &Env{Args: map[string]string{}}
	fs.StringVar(&env.In, "in", "", "input table / behaviours (ndjson)")
	fs.StringVar(&env.Out, "out", "trace.ndjson", "output trace (ndjson)")
	fs.Int64Var(&env.Seed, "seed", 1, "seed")
	fs.StringVar(&env.Tier, "tier", "quick", "quick|thorough")
	fs.Var(kvFlag(env.Args), "arg", "k=v driver argument (repeatable)")
	_ = fs.Parse(os.Args[2:])
	w, err := NewTraceWriter(env.Out)
	if err != nil {
		fmt.Fprintln(os.Stderr, "harness:", err)
		os.Exit(3)
	}
	env.W = w
	quietLogs()
	if err := d(env); err != nil {
		w.Close()
		fmt.Fprintln(os.Stderr, "harness failure:", err)
		os.Exit(3)
	}
	if err := w.Close(); err != nil {
		fmt.Fprintln(os.Stderr, "harness:", err)
		os.Exit(3)
	}
}
