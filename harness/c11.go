package main

import (
	"bytes"
	"context"
	"encoding/json"
	"errors"
	"fmt"
	"io"
	"math/rand"
	"net/http/httptest"
	"strings"

	jsonrpc "github.com/filecoin-project/go-jsonrpc"
)

// C11: rows of ErrCodec.tla through a real client/server pair (http, ws, custom transport).

func init() { register("c11", runC11) }

// ---- error types of every class

type eRegVal struct{}

func (eRegVal) Error() string { return "regval error" }

type eRegPtr struct{ msg string }

func (e *eRegPtr) Error() string { return e.msg }

type eMarsh struct {
	A string
	B int
}

func (e *eMarsh) Error() string { return "marsh:" + e.A }
func (e *eMarsh) MarshalJSON() ([]byte, error) {
	return json.Marshal(map[string]interface{}{"A": e.A, "B": e.B})
}
func (e *eMarsh) UnmarshalJSON(b []byte) error {
	var m struct {
		A string
		B int
	}
	if err := json.Unmarshal(b, &m); err != nil {
		return err
	}
	e.A, e.B = m.A, m.B
	return nil
}

type eMarshVal struct{ A string }

func (e eMarshVal) Error() string                { return "marshval:" + e.A }
func (e eMarshVal) MarshalJSON() ([]byte, error) { return json.Marshal(map[string]string{"A": e.A}) }
func (e *eMarshVal) UnmarshalJSON(b []byte) error {
	var m map[string]string
	if err := json.Unmarshal(b, &m); err != nil {
		return err
	}
	e.A = m["A"]
	return nil
}

type eMarshFU struct{ A string }

func (e *eMarshFU) Error() string                { return "marshfu:" + e.A }
func (e *eMarshFU) MarshalJSON() ([]byte, error) { return json.Marshal(map[string]string{"A": e.A}) }
func (e *eMarshFU) UnmarshalJSON(b []byte) error { return errors.New("cannot unmarshal this") }

type eMarshFM struct{ A string }

func (e *eMarshFM) Error() string                { return "marshfm:" + e.A }
func (e *eMarshFM) MarshalJSON() ([]byte, error) { return nil, errors.New("cannot marshal this") }
func (e *eMarshFM) UnmarshalJSON(b []byte) error { return nil }

type eCodecV struct{ Msg string }

func (e eCodecV) Error() string { return "codecv:" + e.Msg }
func (e *eCodecV) ToJSONRPCError() (jsonrpc.JSONRPCError, error) {
	return jsonrpc.JSONRPCError{Code: 77, Message: e.Msg}, nil
}
func (e *eCodecV) FromJSONRPCError(j jsonrpc.JSONRPCError) error { e.Msg = j.Message; return nil }

type eCodecVF struct{ Msg string }

func (e eCodecVF) Error() string { return "codecvf:" + e.Msg }
func (e *eCodecVF) ToJSONRPCError() (jsonrpc.JSONRPCError, error) {
	return jsonrpc.JSONRPCError{Code: 78, Message: e.Msg}, nil
}
func (e *eCodecVF) FromJSONRPCError(j jsonrpc.JSONRPCError) error {
	return errors.New("cannot convert back")
}

// eXVal is what the client binds (value form) to the code under which the server registered *eMarsh
type eXVal struct{ A string }

func (e eXVal) Error() string                 { return "xval:" + e.A }
func (e eXVal) MarshalJSON() ([]byte, error)  { return json.Marshal(map[string]string{"A": e.A}) }
func (e *eXVal) UnmarshalJSON(b []byte) error { return errors.New("cannot unmarshal this") }

const c11K = 300

type eCodec struct{ Msg, Extra string }

func (e *eCodec) Error() string { return e.Msg }
func (e *eCodec) ToJSONRPCError() (jsonrpc.JSONRPCError, error) {
	return jsonrpc.JSONRPCError{Code: c11K + 1, Message: e.Msg, Data: e.Extra}, nil
}
func (e *eCodec) FromJSONRPCError(j jsonrpc.JSONRPCError) error {
	e.Msg = j.Message
	e.Extra, _ = j.Data.(string)
	return nil
}

type eCodecFT struct{ Msg string }

func (e *eCodecFT) Error() string { return e.Msg }
func (e *eCodecFT) ToJSONRPCError() (jsonrpc.JSONRPCError, error) {
	return jsonrpc.JSONRPCError{}, errors.New("cannot convert")
}
func (e *eCodecFT) FromJSONRPCError(j jsonrpc.JSONRPCError) error { e.Msg = j.Message; return nil }

type eCodecFF struct{ Msg string }

func (e *eCodecFF) Error() string { return e.Msg }
func (e *eCodecFF) ToJSONRPCError() (jsonrpc.JSONRPCError, error) {
	return jsonrpc.JSONRPCError{Code: c11K + 3, Message: e.Msg, Data: "x"}, nil
}
func (e *eCodecFF) FromJSONRPCError(j jsonrpc.JSONRPCError) error {
	return errors.New("cannot convert back")
}

// eWrapInner is registered, but the handler returns it wrapped (fmt.Errorf("...%w")): the dynamic type of what it returns is not.
type eWrapInner struct{ Msg string }

func (e *eWrapInner) Error() string { return e.Msg }

type c11Class struct {
	idx   int
	reg   func(es *jsonrpc.Errors, code jsonrpc.ErrorCode)
	creg  func(es *jsonrpc.Errors, code jsonrpc.ErrorCode) // client-side registration when it differs
	mk    func(msg string, n int) error
	kcode int // code a codec supplies itself (0: none)
}

var c11Classes = map[string]c11Class{
	"plain":            {idx: 1, mk: func(m string, n int) error { return errors.New(m) }},
	"regval":           {idx: 2, reg: func(es *jsonrpc.Errors, c jsonrpc.ErrorCode) { es.Register(c, new(eRegVal)) }, mk: func(m string, n int) error { return eRegVal{} }},
	"regptr":           {idx: 3, reg: func(es *jsonrpc.Errors, c jsonrpc.ErrorCode) { es.Register(c, new(*eRegPtr)) }, mk: func(m string, n int) error { return &eRegPtr{m} }},
	"marsh":            {idx: 4, reg: func(es *jsonrpc.Errors, c jsonrpc.ErrorCode) { es.Register(c, new(*eMarsh)) }, mk: func(m string, n int) error { return &eMarsh{m, n} }},
	"marshval":         {idx: 5, reg: func(es *jsonrpc.Errors, c jsonrpc.ErrorCode) { es.Register(c, new(eMarshVal)) }, mk: func(m string, n int) error { return eMarshVal{m} }},
	"codec":            {idx: 6, kcode: c11K + 1, reg: func(es *jsonrpc.Errors, c jsonrpc.ErrorCode) { es.Register(c, new(*eCodec)) }, mk: func(m string, n int) error { return &eCodec{m, fmt.Sprint("extra-", n)} }},
	"codecfailto":      {idx: 7, kcode: c11K + 2, reg: func(es *jsonrpc.Errors, c jsonrpc.ErrorCode) { es.Register(c, new(*eCodecFT)) }, mk: func(m string, n int) error { return &eCodecFT{m} }},
	"codecfailfrom":    {idx: 8, kcode: c11K + 3, reg: func(es *jsonrpc.Errors, c jsonrpc.ErrorCode) { es.Register(c, new(*eCodecFF)) }, mk: func(m string, n int) error { return &eCodecFF{m} }},
	"marshfailun":      {idx: 9, reg: func(es *jsonrpc.Errors, c jsonrpc.ErrorCode) { es.Register(c, new(*eMarshFU)) }, mk: func(m string, n int) error { return &eMarshFU{m} }},
	"codecvalok":       {idx: 11, reg: func(es *jsonrpc.Errors, c jsonrpc.ErrorCode) { es.Register(c, new(eCodecV)) }, mk: func(m string, n int) error { return eCodecV{m} }},
	"codecvalfailfrom": {idx: 12, reg: func(es *jsonrpc.Errors, c jsonrpc.ErrorCode) { es.Register(c, new(eCodecVF)) }, mk: func(m string, n int) error { return eCodecVF{m} }},
	"xmarshvalfailun": {idx: 13, reg: func(es *jsonrpc.Errors, c jsonrpc.ErrorCode) { es.Register(c, new(*eMarsh)) },
		creg: func(es *jsonrpc.Errors, c jsonrpc.ErrorCode) { es.Register(c, new(eXVal)) }, mk: func(m string, n int) error { return &eMarsh{m, n} }},
	"wrapreg": {idx: 14, reg: func(es *jsonrpc.Errors, c jsonrpc.ErrorCode) { es.Register(c, new(*eWrapInner)) },
		mk: func(m string, n int) error { return fmt.Errorf("while handling %d: %w", n, &eWrapInner{m}) }},
	"marshfailm": {idx: 10, reg: func(es *jsonrpc.Errors, c jsonrpc.ErrorCode) { es.Register(c, new(*eMarshFM)) }, mk: func(m string, n int) error { return &eMarshFM{m} }},
}

type c11Srv struct{}

func c11Mk(cls, msg string, n int) error {
	if cls == "nil" {
		return nil
	}
	return c11Classes[cls].mk(msg, n)
}
func (c11Srv) ErrOnly(cls, msg string, n int) error { return c11Mk(cls, msg, n) }
func (c11Srv) ValErr(cls, msg string, n int, nonzero bool) (int, error) {
	v := 0
	if nonzero {
		v = 4242
	}
	return v, c11Mk(cls, msg, n)
}

type c11API struct {
	ErrOnly func(cls, msg string, n int) error
	ValErr  func(cls, msg string, n int, nonzero bool) (int, error)
}

func randMsg(rng *rand.Rand) string {
	alphabet := []string{"a", "Z", " ", "\"", "\\", "<", ">", "&", "\u0001", "\n", "\t", "é", "世", "\U0001F600", "'", "{", "}", " ", "/"}
	n := rng.Intn(12)
	if rng.Intn(6) == 0 {
		n = 0
	}
	var b strings.Builder
	for i := 0; i < n; i++ {
		b.WriteString(alphabet[rng.Intn(len(alphabet))])
	}
	return b.String()
}

func c11Row(rng *rand.Rand, row map[string]interface{}) (obs map[string]interface{}) {
	cls, rel := row["cls"].(string), row["rel"].(string)
	obs = map[string]interface{}{"nonnil": false, "zero": false, "etype": "nil", "form": "na", "content": "na", "msgcode": "na"}
	defer func() {
		if p := recover(); p != nil {
			obs["etype"] = "panic"
			obs["note"] = fmt.Sprint(p)
		}
	}()
	sCode := jsonrpc.ErrorCode(0)
	cCode := jsonrpc.ErrorCode(0)
	var sErrs, cErrs *jsonrpc.Errors
	if c, ok := c11Classes[cls]; ok && c.reg != nil {
		sCode = jsonrpc.ErrorCode(100 + c.idx)
		cCode = sCode
		if rel == "disjoint" {
			cCode = jsonrpc.ErrorCode(200 + c.idx)
		}
		if c.kcode != 0 {
			cCode = jsonrpc.ErrorCode(c.kcode)
		}
		if rel == "both" || rel == "serveronly" || rel == "disjoint" {
			es := jsonrpc.NewErrors()
			c.reg(&es, sCode)
			sErrs = &es
		}
		if rel == "both" || rel == "clientonly" || rel == "disjoint" {
			es := jsonrpc.NewErrors()
			if c.creg != nil {
				c.creg(&es, cCode)
			} else {
				c.reg(&es, cCode)
			}
			cErrs = &es
		}
	}
	// tables without the class's type but present (empty or with an unrelated type) must behave like no table
	if sErrs == nil && rng.Intn(2) == 0 {
		es := jsonrpc.NewErrors()
		es.Register(999, new(*eRegPtr))
		if cls == "regptr" {
			es = jsonrpc.NewErrors()
		}
		sErrs = &es
	}
	if cErrs == nil && rng.Intn(2) == 0 {
		es := jsonrpc.NewErrors()
		cErrs = &es
	}
	var sopts []jsonrpc.ServerOption
	if sErrs != nil {
		sopts = append(sopts, jsonrpc.WithServerErrors(*sErrs))
	}
	srv := jsonrpc.NewServer(sopts...)
	srv.Register("E", c11Srv{})
	var copts []jsonrpc.Option
	if cErrs != nil {
		copts = append(copts, jsonrpc.WithErrors(*cErrs))
	}
	var api c11API
	var closer jsonrpc.ClientCloser
	var err error
	switch row["tr"] {
	case "custom":
		closer, err = jsonrpc.NewCustomClient("E", []interface{}{&api}, func(ctx context.Context, body []byte) (io.ReadCloser, error) {
			var buf bytes.Buffer
			srv.HandleRequest(ctx, bytes.NewReader(body), &buf)
			return io.NopCloser(&buf), nil
		}, copts...)
	case "http":
		ts := httptest.NewServer(srv)
		defer ts.Close()
		closer, err = jsonrpc.NewMergeClient(context.Background(), ts.URL, "E", []interface{}{&api}, nil, copts...)
	case "ws":
		ts := httptest.NewServer(srv)
		defer ts.Close()
		closer, err = jsonrpc.NewMergeClient(context.Background(), "ws"+strings.TrimPrefix(ts.URL, "http"), "E", []interface{}{&api}, nil, copts...)
	}
	if err != nil {
		obs["etype"] = "harness"
		obs["note"] = err.Error()
		return obs
	}
	defer closer()
	msg := randMsg(rng)
	n := rng.Intn(1000)
	orig := c11Mk(cls, msg, n)
	var got error
	val := 0
	if row["shape"] == "err" {
		got = api.ErrOnly(cls, msg, n)
	} else {
		val, got = api.ValErr(cls, msg, n, row["hval"] == "nonzero")
	}
	obs["nonnil"] = got != nil
	obs["zero"] = val == 0
	if got == nil {
		return obs
	}
	wantCode := jsonrpc.ErrorCode(1)
	if sErrs != nil && sCode != 0 && (rel == "both" || rel == "serveronly" || rel == "disjoint") {
		wantCode = sCode
	}
	if k := c11Classes[cls].kcode; k != 0 && cls != "codecfailto" {
		wantCode = jsonrpc.ErrorCode(k)
	}
	if cls == "wrapreg" {
		wantCode = 1 // the wrapper's own type is in nobody's table
	}
	switch e := got.(type) {
	case *jsonrpc.JSONRPCError:
		obs["etype"] = "generic"
		if e.Message == orig.Error() && e.Code == wantCode {
			obs["msgcode"] = "kept"
		} else {
			obs["msgcode"] = fmt.Sprintf("changed(code %d want %d, msg %q want %q)", e.Code, wantCode, e.Message, orig.Error())
		}
	case eRegVal:
		obs["etype"], obs["form"] = "registered", "val"
	case *eRegVal:
		obs["etype"], obs["form"] = "registered", "ptr"
	case *eRegPtr:
		obs["etype"], obs["form"] = "registered", "ptr"
	case *eMarsh:
		obs["etype"], obs["form"] = "registered", "ptr"
		a, _ := e.MarshalJSON()
		b, _ := orig.(*eMarsh).MarshalJSON()
		obs["content"] = map[bool]string{true: "eq", false: "differs"}[bytes.Equal(a, b)]
	case eMarshVal:
		obs["etype"], obs["form"] = "registered", "val"
	case eCodecV:
		obs["etype"], obs["form"] = "registered", "val"
	case eCodecVF, eXVal:
		obs["etype"], obs["form"] = "registered", "val"
	case *eCodecV, *eCodecVF, *eXVal:
		obs["etype"], obs["form"] = "registered", "ptr"
	case *eMarshVal:
		obs["etype"], obs["form"] = "registered", "ptr"
	case *eCodec:
		obs["etype"], obs["form"] = "registered", "ptr"
		o := orig.(*eCodec)
		obs["content"] = map[bool]string{true: "eq", false: "differs"}[e.Msg == o.Msg && e.Extra == o.Extra]
	case *eCodecFT, *eCodecFF, *eMarshFU:
		obs["etype"], obs["form"] = "registered", "ptr"
	case *eMarshFM, *eWrapInner:
		obs["etype"], obs["form"] = "registered", "ptr"
	default:
		obs["etype"] = fmt.Sprintf("other:%T", got)
	}
	return obs
}

func runC11(env *Env) error {
	rows, err := readNDJSON(env.In)
	if err != nil {
		return err
	}
	rng := rand.New(rand.NewSource(env.Seed))
	reps := 2
	if env.Tier == "thorough" {
		reps = 10
	}
	n := 0
	for _, r := range rows {
		row := r["row"].(map[string]interface{})
		for k := 0; k < reps; k++ {
			obs := c11Row(rng, row)
			n++
			env.W.Emit(map[string]interface{}{"row": row, "obs": obs, "n": n})
		}
	}
	return nil
}
