package main

import (
	"context"
	"fmt"
	"math/rand"
	"sync"
	"time"

	jsonrpc "github.com/filecoin-project/go-jsonrpc"
)

func init() {
	scenarios["c02.perm"] = scC02Perm
	scenarios["c02.stress"] = scC02Stress
	scenarios["c02.badwrite"] = scC02BadWrite
}

// c02.badwrite: while n calls are in flight the application issues a request that cannot be encoded (raw params that are not
// JSON). Whatever happens to that request, the calls in flight are not its business: each still gets its own answer.
func scC02BadWrite(w *World, a Args, rng *rand.Rand) error {
	applyDelays(w, a)
	n := a.Int("n", 3)
	c, err := w.NewClient(ClientOpts{Name: "A", NoPing: true})
	if err != nil {
		return err
	}
	var wg sync.WaitGroup
	for i := 1; i <= n; i++ {
		w.Plan(i, &Plan{Gated: true})
		wg.Add(1)
		go func(i int) { defer wg.Done(); c.Call(context.Background(), "unary", i) }(i)
	}
	for i := 1; i <= n; i++ {
		w.WaitRunning(i, time.Second)
	}
	for k := 0; k < a.Int("bad", 1); k++ {
		ctx, cancel := context.WithTimeout(context.Background(), 50*time.Millisecond)
		go func() { defer cancel(); c.API.Raw(ctx, jsonrpc.RawParams("{not json")) }() // its own fate is not judged
	}
	time.Sleep(10 * time.Millisecond)
	for _, i := range rng.Perm(n) {
		w.Release(i + 1)
		time.Sleep(time.Duration(rng.Intn(300)) * time.Microsecond)
	}
	done := make(chan struct{})
	go func() { wg.Wait(); close(done) }()
	waitCh(done, patience(3*time.Second))
	w.Plan(50, &Plan{})
	c.CallT("unary", 50, patience(2*time.Second))
	w.Quiesce(c, 1000, 2*time.Second)
	return nil
}

// applyDelays installs seeded schedule perturbation at the hook points named in args["delay"] (probability p).
func applyDelays(w *World, a Args) {
	p := a.Float("p", 0)
	if p <= 0 {
		return
	}
	if l, ok := a["delay"].([]interface{}); ok {
		for _, x := range l {
			w.Rec.SetDelay(x.(string), p)
		}
	}
}

// c02.perm: n concurrent calls, all handlers gated; released in the given permutation; every call must return once with
// its own token whatever the completion order.
func scC02Perm(w *World, a Args, rng *rand.Rand) error {
	n := a.Int("n", 3)
	perm := a.Ints("perm")
	kinds := []string{"unary", "retry", "big", "callback"}
	applyDelays(w, a)
	c, err := w.NewClient(ClientOpts{Name: "A", HTTP: a.Str("transport", "ws") == "http", NoPing: true, Reverse: a.Bool("reverse")})
	if err != nil {
		return err
	}
	var wg sync.WaitGroup
	for i := 1; i <= n; i++ {
		w.Plan(i, &Plan{Gated: true, Outcome: []string{"ok", "ok", "err"}[rng.Intn(3)]})
		kind := "unary"
		if a.Bool("mixed") {
			kind = kinds[(i-1)%len(kinds)]
			if kind == "callback" && (c.HTTP || !a.Bool("reverse")) {
				kind = "unary"
			}
		}
		wg.Add(1)
		go func(i int, kind string) {
			defer wg.Done()
			if kind == "big" {
				c.Call(context.Background(), kind, i, 20000+i)
			} else {
				c.Call(context.Background(), kind, i)
			}
		}(i, kind)
	}
	for i := 1; i <= n; i++ {
		if !w.WaitRunning(i, 3*time.Second) {
			// the request never reached its handler: let quiescence judge it
			break
		}
	}
	for _, i := range perm {
		w.Release(i)
		time.Sleep(time.Duration(rng.Intn(300)) * time.Microsecond)
	}
	done := make(chan struct{})
	go func() { wg.Wait(); close(done) }()
	select {
	case <-done:
	case <-time.After(3 * time.Second):
	}
	w.Quiesce(c, 1000, 2*time.Second)
	return nil
}

// c02.stress: many concurrent callers, ungated handlers, seeded delays at the hook points around in-flight
// registration, request write, response lookup and delivery; a few calls are cancelled while in flight.
func scC02Stress(w *World, a Args, rng *rand.Rand) error {
	n := a.Int("n", 16)
	applyDelays(w, a)
	c, err := w.NewClient(ClientOpts{Name: "A", HTTP: a.Str("transport", "ws") == "http", NoPing: true})
	if err != nil {
		return err
	}
	var wg sync.WaitGroup
	for i := 1; i <= n; i++ {
		out := "ok"
		if rng.Intn(5) == 0 {
			out = "err"
		}
		cancelIt := a.Bool("cancel") && rng.Intn(4) == 0
		w.Plan(i, &Plan{Gated: cancelIt, Outcome: out})
		kind := []string{"unary", "unary", "retry", "big"}[rng.Intn(4)]
		if a.Bool("allbig") {
			kind = "big"
		}
		if a.Bool("allbigreq") { // equally long large requests back to back (frames of one size queueing up at the server)
			kind = "bigreq"
		}
		wg.Add(1)
		go func(i int, kind string, cancelIt bool) {
			defer wg.Done()
			ctx, cancel := context.WithCancel(context.Background())
			defer cancel()
			if cancelIt {
				go func() {
					if w.WaitRunning(i, 2*time.Second) {
						w.Rec.Emit("CallerCancel", "call", i)
						cancel()
					} else {
						w.Release(i)
					}
				}()
			}
			if kind == "bigreq" {
				c.CallBigReq(ctx, i, a.Int("reqsize", 48000))
			} else if kind == "big" {
				sz := 5000 + rng.Intn(30000)
				if a.Bool("allbig") {
					sz = 200000 + rng.Intn(800000)
				}
				c.Call(ctx, kind, i, sz)
			} else {
				c.Call(ctx, kind, i)
			}
		}(i, kind, cancelIt)
		if rng.Intn(3) == 0 {
			time.Sleep(time.Duration(rng.Intn(200)) * time.Microsecond)
		}
	}
	done := make(chan struct{})
	go func() { wg.Wait(); close(done) }()
	select {
	case <-done:
	case <-time.After(6 * time.Second):
	}
	w.Quiesce(c, 1000, 2*time.Second)
	return nil
}

var _ = fmt.Sprint

func init() { scenarios["c02.script"] = scC02Script }

// c02.script: a behaviour of WsRpc (TLC -simulate) projected to: start order, which calls are cancelled while their
// handler is still running, and the order in which the server finishes the handlers.
func scC02Script(w *World, a Args, rng *rand.Rand) error {
	order, perm, cancels := a.Ints("order"), a.Ints("perm"), a.Ints("cancel")
	applyDelays(w, a)
	c, err := w.NewClient(ClientOpts{Name: "A", HTTP: a.Str("transport", "ws") == "http", NoPing: true})
	if err != nil {
		return err
	}
	isCancel := map[int]bool{}
	for _, k := range cancels {
		isCancel[k] = true
	}
	cancelFns := map[int]context.CancelFunc{}
	var mu sync.Mutex
	var wg sync.WaitGroup
	for _, k := range order {
		w.Plan(k, &Plan{Gated: true})
		ctx, cancel := context.WithCancel(context.Background())
		mu.Lock()
		cancelFns[k] = cancel
		mu.Unlock()
		wg.Add(1)
		go func(k int, ctx context.Context) {
			defer wg.Done()
			c.Call(ctx, "unary", k)
		}(k, ctx)
		w.WaitRunning(k, 2*time.Second)
	}
	for _, k := range cancels {
		w.Rec.Emit("CallerCancel", "call", k)
		mu.Lock()
		cancelFns[k]()
		mu.Unlock()
	}
	for _, k := range perm {
		w.Release(k)
		time.Sleep(time.Duration(rng.Intn(200)) * time.Microsecond)
	}
	for _, k := range order { // whatever the script left gated
		w.Release(k)
	}
	done := make(chan struct{})
	go func() { wg.Wait(); close(done) }()
	select {
	case <-done:
	case <-time.After(3 * time.Second):
	}
	for _, f := range cancelFns {
		f()
	}
	w.Quiesce(c, 1000, 2*time.Second)
	return nil
}
