package main

import (
	"bytes"
	"context"
	"fmt"
	"io"
	"math/rand"
	"net/http"
	"strings"
	"sync"
	"time"

	jsonrpc "github.com/filecoin-project/go-jsonrpc"
)

func init() {
	scenarios["c06.cancel"] = scC06Cancel
	scenarios["c07.stream"] = scC07Stream
	scenarios["c08.term"] = scC08Term
	scenarios["c18.close"] = scC18Close
	scenarios["c18.badchan"] = scC18BadChan
	scenarios["c08.reuse"] = scC08Reuse
	scenarios["c18.backlog"] = scC18Backlog
	scenarios["c18.closeblocked"] = scC18CloseBlocked
	scenarios["c06.batch"] = scC06Batch
}

// c06.batch: one HTTP request carrying a batch of calls; nobody cancels anything and the request is not aborted, so none of the
// handlers (they stay active for a moment and report a cancellation they observe) may see its context cancelled.
func scC06Batch(w *World, a Args, rng *rand.Rand) error {
	n := a.Int("n", 3)
	var parts []string
	for i := 1; i <= n; i++ {
		w.Plan(i, &Plan{Gated: true})
		parts = append(parts, fmt.Sprintf(`{"jsonrpc":"2.0","id":%d,"method":"H.Unary","params":[%d]}`, i, i))
		w.Rec.Emit("CallStart", "call", i, "cli", "raw", "kind", "unary", "transport", "httpbatch")
		w.markStart(i)
	}
	go func() { // the elements are handled one after the other: release each a little after it has started
		for i := 1; i <= n; i++ {
			w.WaitRunning(i, 2*time.Second)
			time.Sleep(10 * time.Millisecond)
			w.Release(i)
		}
	}()
	resp, err := http.Post("http://"+w.TS.Listener.Addr().String(), "application/json", strings.NewReader("["+strings.Join(parts, ",")+"]"))
	if err == nil {
		io.Copy(io.Discard, resp.Body)
		resp.Body.Close()
	}
	for i := 1; i <= n; i++ {
		w.markEnd(i)
		out := "ok"
		if err != nil {
			out = "other"
		}
		w.Rec.Emit("CallEnd", "call", i, "outcome", out, "token", i, "detail", "")
	}
	w.Quiesce(nil, 0, 2*time.Second)
	return nil
}

// c18.closeblocked: the client is closed while one of its handler goroutines has been holding the connection's writer for more
// than a second (a large reverse-call response to a peer that does not read). The close frame waits for its turn like every other
// write; once the peer reads again everything completes and the closer returns.
func scC18CloseBlocked(w *World, a Args, rng *rand.Rand) error {
	A, err := w.NewClient(ClientOpts{Name: "A", NoPing: true, Reverse: true, NoReconnect: true})
	if err != nil {
		return err
	}
	pc := w.Proxy.Last()
	w.Plan(1, &Plan{})
	d1 := make(chan struct{})
	go func() {
		defer close(d1)
		ctx, cancel := context.WithTimeout(context.Background(), 6*time.Second)
		defer cancel()
		A.Call(ctx, "callbackbig", 1, a.Int("size", 16<<20))
	}()
	dl := time.Now().Add(2 * time.Second)
	for started := false; !started && time.Now().Before(dl); time.Sleep(time.Millisecond) {
		for _, e := range w.Rec.Events() {
			if e["ev"] == "RevStart" && e["call"] == 1 {
				started = true
			}
		}
	}
	pc.Stall(C2S, true) // the server stops reading: the reverse handler's answer will not fit into the socket buffers
	w.Release(1)
	time.Sleep(400 * time.Millisecond) // the reverse handler is writing its response and sits blocked in the socket by now
	closed := make(chan bool, 1)
	go func() { closed <- w.CloseClient(A) }()
	time.Sleep(time.Duration(a.Int("holdms", 1500)) * time.Millisecond)
	pc.Stall(C2S, false)
	returned := false
	select {
	case returned = <-closed:
	case <-time.After(patience(6 * time.Second)):
	}
	waitCh(d1, patience(3*time.Second))
	w.Rec.Emit("Quiesce", "cli", "", "probe", "none", "waiting", intsOrEmpty(w.Waiting()), "lost", []int{}, "closerReturned", returned)
	return nil
}

// c18.backlog: the client is closed while a subscription has tens of thousands of values nobody has read yet; the closer returns
// all the same and the channel is closed (the application may read what is buffered or not at all).
func scC18Backlog(w *World, a Args, rng *rand.Rand) error {
	A, err := w.NewClient(ClientOpts{Name: "A", NoPing: true})
	if err != nil {
		return err
	}
	w.Proxy.quiet = true
	n := a.Int("n", 40000)
	w.Plan(3, &Plan{})
	d := make(chan struct{})
	gate := make(chan struct{}) // nobody reads until the client has been closed
	go func() {
		ch, out := A.Subscribe(context.Background(), 3, n, "")
		if out == "ok" && ch != nil {
			w.Consume(3, ch, gate, d)
		} else {
			close(d)
		}
	}()
	dl := time.Now().Add(patience(20 * time.Second))
	for sent := false; !sent && time.Now().Before(dl); time.Sleep(5 * time.Millisecond) {
		for _, e := range w.Rec.Events() {
			if e["ev"] == "HandlerChanClose" && e["call"] == 3 {
				sent = true
			}
		}
	}
	time.Sleep(20 * time.Millisecond)
	returned := w.CloseClient(A)
	close(gate)
	waitCh(d, patience(5*time.Second))
	w.Rec.Emit("Quiesce", "cli", "", "probe", "none", "waiting", intsOrEmpty(w.Waiting()), "lost", []int{}, "closerReturned", returned, "expectClosed", []int{3})
	return nil
}

// c08.reuse: subscription A ends with its connection; on the next connection subscription B gets the same channel id; only then
// is A's context cancelled (late clean-up of A must not touch B): B still receives everything and is closed by its handler.
func scC08Reuse(w *World, a Args, rng *rand.Rand) error {
	applyDelays(w, a)
	A, err := w.NewClient(ClientOpts{Name: "A", NoPing: true, BackoffMin: 2 * time.Millisecond, BackoffMax: 8 * time.Millisecond})
	if err != nil {
		return err
	}
	ctxA, cancelA := context.WithCancel(context.Background())
	defer cancelA()
	w.Plan(3, &Plan{NoClose: true, NoCloseMs: 1000})
	dA := make(chan struct{})
	go func() {
		ch, out := A.Subscribe(ctxA, 3, 2, "")
		if out == "ok" && ch != nil {
			w.Consume(3, ch, nil, dA)
		} else {
			close(dA)
		}
	}()
	w.WaitRunning(3, time.Second)
	time.Sleep(5 * time.Millisecond)
	pc := w.Proxy.Last()
	w.Rec.Emit("WireFault", "conn", pc.ID, "fault", "kill/fin", "dir", "both", "frame", 0)
	pc.Kill("fin")
	waitCh(dA, patience(3*time.Second)) // A's channel is closed by the loss of its connection
	dl := time.Now().Add(patience(3 * time.Second))
	for tok := 6; tok < 400 && time.Now().Before(dl); tok += 10 {
		if o := A.CallT("unary", tok, patience(time.Second)); o == "ok" || o == "pending" {
			break
		}
		time.Sleep(3 * time.Millisecond)
	}
	step := make(chan struct{}, 8)
	w.Plan(13, &Plan{Step: step})
	dB := make(chan struct{})
	go func() {
		ch, out := A.Subscribe(context.Background(), 13, 4, "")
		if out == "ok" && ch != nil {
			w.Consume(13, ch, nil, dB)
		} else {
			close(dB)
		}
	}()
	w.WaitRunning(13, time.Second)
	step <- struct{}{}
	step <- struct{}{}
	time.Sleep(5 * time.Millisecond)
	w.Rec.Emit("CallerCancel", "call", 3)
	cancelA() // the old subscription's context ends now
	time.Sleep(time.Duration(a.Int("gapms", 10)) * time.Millisecond)
	step <- struct{}{}
	step <- struct{}{}
	waitCh(dB, patience(3*time.Second))
	w.Release(3)
	w.Rec.Emit("Quiesce", "cli", "A", "probe", "none", "waiting", intsOrEmpty(w.Waiting()), "lost", []int{}, "expectClosed", []int{3, 13})
	return nil
}

func has(l []int, x int) bool {
	for _, y := range l {
		if y == x {
			return true
		}
	}
	return false
}

// c06.cancel: client A runs unary calls 1, 2 and subscription 3 (after a blocking call 9, so that request ids and
// channel ids differ); client B runs unary 11 and subscription 13 (same wire ids as A's). A subset of A's calls is
// cancelled at a chosen instant; exactly their handlers must observe the cancellation, nobody else's.
func scC06Cancel(w *World, a Args, rng *rand.Rand) error {
	applyDelays(w, a)
	http := a.Str("transport", "ws") == "http"
	cancelSet := a.Ints("cancel")
	instant := a.Str("instant", "running") // pre | running | race | established
	A, err := w.NewClient(ClientOpts{Name: "A", HTTP: http, NoPing: true})
	if err != nil {
		return err
	}
	B, err := w.NewClient(ClientOpts{Name: "B", HTTP: http, NoPing: true})
	if err != nil {
		return err
	}
	var wg sync.WaitGroup
	cancels := map[int]context.CancelFunc{}
	var mu sync.Mutex
	unary := func(c *Client, tok int, kind string) {
		willCancel := has(cancelSet, tok)
		w.Plan(tok, &Plan{WaitCtx: willCancel && instant != "race", Gated: true})
		ctx, cancel := context.WithCancel(context.Background())
		mu.Lock()
		cancels[tok] = cancel
		mu.Unlock()
		if willCancel && instant == "pre" {
			w.Rec.Emit("CallerCancel", "call", tok)
			cancel()
		}
		wg.Add(1)
		go func() {
			defer wg.Done()
			c.Call(ctx, kind, tok)
		}()
	}
	subDone := map[int]chan struct{}{}
	sub := func(c *Client, tok int) {
		willCancel := has(cancelSet, tok)
		step := make(chan struct{}, 16)
		w.Plan(tok, &Plan{Step: step, NoClose: true, WaitCtx: willCancel})
		ctx, cancel := context.WithCancel(context.Background())
		mu.Lock()
		cancels[tok] = cancel
		subDone[tok] = make(chan struct{})
		d := subDone[tok]
		mu.Unlock()
		if willCancel && instant == "pre" {
			w.Rec.Emit("CallerCancel", "call", tok)
			cancel()
		}
		wg.Add(1)
		go func() {
			defer wg.Done()
			ch, out := c.Subscribe(ctx, tok, 3, "")
			if out == "ok" && ch != nil {
				w.Consume(tok, ch, nil, d)
				step <- struct{}{} // first value
			} else {
				close(d)
			}
		}()
	}
	if !http {
		unary(A, 9, "unary") // occupies request id 1 on A, so that subscription 3 gets request id != channel id
		w.WaitRunning(9, time.Second)
	}
	unary(A, 1, "unary")
	unary(A, 2, "retry")
	unary(B, 11, "unary")
	if !http {
		sub(A, 3)
		sub(B, 13)
	}
	for _, t := range []int{1, 2, 11} {
		if !(has(cancelSet, t) && instant == "pre") {
			w.WaitRunning(t, time.Second)
		}
	}
	if !http {
		// wait until the streams are established (first value delivered)
		dl := time.Now().Add(time.Second)
		for time.Now().Before(dl) {
			n := 0
			for _, e := range w.Rec.Events() {
				if e["ev"] == "ChanRecv" {
					n++
				}
			}
			want := 2
			if has(cancelSet, 3) && instant == "pre" {
				want = 1
			}
			if n >= want {
				break
			}
			time.Sleep(300 * time.Microsecond)
		}
	}
	if instant != "pre" {
		for _, t := range cancelSet {
			if instant == "race" {
				w.Release(t)
			}
			w.Rec.Emit("CallerCancel", "call", t)
			mu.Lock()
			cancels[t]()
			mu.Unlock()
		}
	}
	time.Sleep(time.Duration(5+rng.Intn(10)) * time.Millisecond) // cancellations travel; nobody else may be affected meanwhile
	// everybody else finishes normally
	for _, t := range []int{9, 1, 2, 11} {
		if !has(cancelSet, t) {
			w.Release(t)
		}
	}
	time.Sleep(3 * time.Millisecond)
	for _, t := range []int{3, 13} {
		if !has(cancelSet, t) && !http {
			w.Release(t) // handler closes its stream
		}
	}
	done := make(chan struct{})
	go func() { wg.Wait(); close(done) }()
	waitCh(done, patience(3*time.Second))
	for _, d := range subDone {
		waitCh(d, patience(2*time.Second))
	}
	for _, t := range cancelSet { // a handler that is still waiting is released so the scenario can end (CtxMissing was logged)
		w.Release(t)
	}
	w.Quiesce(A, 1000, 2*time.Second)
	w.Quiesce(B, 1001, 2*time.Second)
	return nil
}

// c07.stream: several subscriptions with different lengths and consumer speeds plus unary calls on one connection.
func scC07Stream(w *World, a Args, rng *rand.Rand) error {
	applyDelays(w, a)
	A, err := w.NewClient(ClientOpts{Name: "A", NoPing: true})
	if err != nil {
		return err
	}
	if a.Bool("quietwire") {
		w.Proxy.quiet = true
	}
	lens := a.Ints("lens")
	modes, _ := a["consumers"].([]interface{})
	closeOrder := a.Ints("closeorder") // streams that are kept open and closed by the handler in this order
	staged := a.Bool("staged")
	steps := map[int]chan struct{}{}
	shapes, _ := a["shapes"].([]interface{}) // "only": the method's sole result is the channel
	if a.Bool("nan") {
		// next to the streams under test, one whose second value cannot be encoded: it is the forwarder's business to skip it
		go func() {
			ctx, cancel := context.WithTimeout(context.Background(), 3*time.Second)
			defer cancel()
			if ch, err := A.API.SubF(ctx, 990, 3); err == nil && ch != nil {
				for range ch {
				}
			}
		}()
		time.Sleep(time.Millisecond)
	}
	var wg sync.WaitGroup
	dones := map[int]chan struct{}{}
	stalled := []int{}
	cancels := map[int]context.CancelFunc{}
	var mu sync.Mutex
	for i, n := range lens {
		tok := 3 + i*10
		mode := "fast"
		if i < len(modes) {
			mode = modes[i].(string)
		}
		pl := &Plan{NoClose: has(closeOrder, tok), NoCloseMs: 8000}
		if staged && has(closeOrder, tok) {
			// half of the values now, the rest one by one between the closes of the other streams
			st := make(chan struct{}, 256)
			for j := 0; j < n/2; j++ {
				st <- struct{}{}
			}
			steps[tok] = st
			pl.Step = st
		}
		w.Plan(tok, pl)
		ctx, cancel := context.WithCancel(context.Background())
		mu.Lock()
		cancels[tok] = cancel
		d := make(chan struct{})
		dones[tok] = d
		mu.Unlock()
		if mode == "stalled" {
			stalled = append(stalled, tok)
		}
		wg.Add(1)
		shape := ""
		if i < len(shapes) && shapes[i] == "only" {
			shape = "only"
		}
		go func(tok, n int, mode string) {
			defer wg.Done()
			ch, out := A.Subscribe(ctx, tok, n, shape)
			if out != "ok" || ch == nil {
				close(d)
				return
			}
			switch mode {
			case "fast":
				w.Consume(tok, ch, nil, d)
			case "slow":
				g := make(chan struct{})
				go func() {
					for {
						time.Sleep(time.Duration(50+rng.Intn(300)) * time.Microsecond)
						select {
						case g <- struct{}{}:
						case <-d:
							return
						}
					}
				}()
				w.Consume(tok, ch, g, d)
			case "stalled":
				g := make(chan struct{})
				w.Consume(tok, ch, g, d) // never reads until the scenario releases it
				go func() { <-ctx.Done(); close(g) }()
			}
		}(tok, n, mode)
		if rng.Intn(2) == 0 {
			time.Sleep(time.Duration(rng.Intn(500)) * time.Microsecond)
		}
	}
	// ordinary calls interleaved with the streaming
	for k := 0; k < a.Int("unary", 3); k++ {
		tok := 100 + k
		w.Plan(tok, &Plan{})
		wg.Add(1)
		go func(tok int) {
			defer wg.Done()
			time.Sleep(time.Duration(rng.Intn(2000)) * time.Microsecond)
			A.Call(context.Background(), "unary", tok)
		}(tok)
	}
	done := make(chan struct{})
	go func() { wg.Wait(); close(done) }()
	waitCh(done, patience(5*time.Second))
	for k, tok := range closeOrder { // handlers close the kept-open streams one by one
		time.Sleep(2 * time.Millisecond)
		w.Release(tok)
		waitCh(dones[tok], patience(3*time.Second))
		if staged {
			// the streams still open go on: one more value each
			for _, t2 := range closeOrder[k+1:] {
				select {
				case steps[t2] <- struct{}{}:
				default:
				}
			}
			time.Sleep(2 * time.Millisecond)
		}
	}
	for tok, d := range dones {
		if !has(stalled, tok) {
			waitCh(d, patience(time.Duration(a.Int("waitms", 5000))*time.Millisecond))
		}
	}
	if len(stalled) > 0 {
		// once the stalled subscribers' handlers have sent everything (their backlog sits unread at the client), ordinary
		// calls and a new subscription must still go through
		dl := time.Now().Add(patience(time.Duration(a.Int("waitms", 5000)) * time.Millisecond))
		for time.Now().Before(dl) {
			closed := 0
			for _, e := range w.Rec.Events() {
				if e["ev"] == "HandlerChanClose" && has(stalled, e["call"].(int)) {
					closed++
				}
			}
			if closed >= len(stalled) {
				break
			}
			time.Sleep(2 * time.Millisecond)
		}
		time.Sleep(20 * time.Millisecond)
		for k := 0; k < 2; k++ {
			w.Plan(200+k, &Plan{})
			A.CallT("unary", 200+k, patience(3*time.Second))
		}
	}
	// independence: everything but the stalled subscriptions has ended by now
	w.QuiesceX(A, 1000, 2*time.Second, "stalled", intsOrEmpty(stalled))
	for _, tok := range stalled {
		w.Rec.Emit("CallerCancel", "call", tok)
		mu.Lock()
		cancels[tok]()
		mu.Unlock()
	}
	for _, tok := range stalled {
		waitCh(dones[tok], patience(2*time.Second))
	}
	return nil
}

// c08.term: one subscription (plus a second, undisturbed one) ended by a chosen cause at a chosen instant.
func scC08Term(w *World, a Args, rng *rand.Rand) error {
	applyDelays(w, a)
	cause := a.Str("cause", "hclose")  // hclose | cancel | fin | rst | close | srvcancel
	instant := a.Str("instant", "mid") // preresp | mid | buffered | raceclose
	n := a.Int("n", 4)
	A, err := w.NewClient(ClientOpts{Name: "A", NoPing: true, BackoffMin: 3 * time.Millisecond, BackoffMax: 10 * time.Millisecond})
	if err != nil {
		return err
	}
	pc := w.Proxy.Last()
	step := make(chan struct{}, 64)
	w.Plan(3, &Plan{Step: step, NoClose: cause != "hclose"})
	ctx, cancel := context.WithCancel(context.Background())
	defer cancel()
	if instant == "preresp" {
		pc.Hold(S2C) // the channel-id response stays in the proxy
	}
	consumerGate := make(chan struct{}, 64)
	var ch <-chan [2]int
	out := ""
	subRet := make(chan struct{})
	d := make(chan struct{})
	go func() {
		defer close(subRet)
		ch, out = A.Subscribe(ctx, 3, n, "")
		if out == "ok" && ch != nil {
			w.Consume(3, ch, consumerGate, d)
		} else {
			close(d)
		}
	}()
	w.WaitRunning(3, time.Second)
	k := n / 2
	switch instant {
	case "preresp":
		time.Sleep(2 * time.Millisecond)
	case "mid":
		for i := 0; i < k; i++ {
			step <- struct{}{}
			consumerGate <- struct{}{}
		}
		time.Sleep(3 * time.Millisecond)
	case "buffered": // values sent and sitting in the client-side buffer, the consumer has not read them
		for i := 0; i < n; i++ {
			step <- struct{}{}
		}
		time.Sleep(5 * time.Millisecond)
	case "streaming": // the handler keeps sending unpaced, the consumer keeps reading; the cause fires in full flight
		go func() {
			for i := 0; i < n; i++ {
				select {
				case step <- struct{}{}:
				case <-d:
					return
				}
			}
		}()
		go func() {
			for {
				select {
				case consumerGate <- struct{}{}:
				case <-d:
					return
				}
			}
		}()
		dl := time.Now().Add(2 * time.Second)
		for time.Now().Before(dl) {
			got := 0
			for _, e := range w.Rec.Events() {
				if e["ev"] == "ChanRecv" {
					got++
				}
			}
			if got >= 30 {
				break
			}
			time.Sleep(200 * time.Microsecond)
		}
	case "raceclose": // the handler sends everything and closes; the cause fires at the same moment
		for i := 0; i < n; i++ {
			step <- struct{}{}
			consumerGate <- struct{}{}
		}
	}
	switch cause {
	case "hclose":
		for i := 0; i < n; i++ {
			select {
			case step <- struct{}{}:
			default:
			}
		}
	case "cancel":
		w.Rec.Emit("CallerCancel", "call", 3)
		cancel()
	case "fin", "rst":
		w.Rec.Emit("WireFault", "conn", pc.ID, "fault", "kill/"+cause, "dir", "both", "frame", 0)
		pc.Kill(cause)
	case "close":
		go w.CloseClient(A)
	case "srvcancel":
		w.CancelSrvConn(1)
	}
	if instant == "raceclose" && cause != "hclose" {
		w.Release(3) // NoClose stream: the handler closes now, racing the cause
	}
	if instant == "preresp" {
		time.Sleep(2 * time.Millisecond)
		pc.Release(S2C, -1)
	}
	// the consumer drains whatever is there
	go func() {
		for i := 0; i < 4*n+8; i++ {
			select {
			case consumerGate <- struct{}{}:
			case <-d:
				return
			}
		}
	}()
	waitCh(subRet, patience(3*time.Second))
	waitCh(d, patience(8*time.Second)) // frames already in socket buffers are still drained through the (perturbed) executor
	w.Release(3)
	expect := []int{}
	if out == "ok" && ch != nil {
		expect = append(expect, 3)
	}
	if cause == "close" {
		time.Sleep(5 * time.Millisecond)
		w.Rec.Emit("Quiesce", "cli", "", "probe", "none", "waiting", intsOrEmpty(w.Waiting()), "lost", []int{}, "expectClosed", expect)
		return nil
	}
	// probe after recovery, then judge
	dl := time.Now().Add(patience(2 * time.Second))
	for tok := 6; tok < 400 && time.Now().Before(dl); tok += 10 {
		if o := A.CallT("unary", tok, patience(time.Second)); o == "ok" || o == "pending" {
			break
		}
		time.Sleep(3 * time.Millisecond)
	}
	w.Rec.Emit("Quiesce", "cli", "A", "probe", "none", "waiting", intsOrEmpty(w.Waiting()), "lost", []int{}, "expectClosed", expect)
	return nil
}

// c18.close: a mixed workload; the closer is fired when the i-th hook point of the run is passed.
func scC18Close(w *World, a Args, rng *rand.Rand) error {
	applyDelays(w, a)
	at := a.Int("at", 1)
	A, err := w.NewClient(ClientOpts{Name: "A", NoPing: true, BackoffMin: 2 * time.Millisecond, BackoffMax: 6 * time.Millisecond})
	if err != nil {
		return err
	}
	closed := make(chan struct{})
	var once sync.Once
	fire := func() {
		once.Do(func() { // the closer is invoked exactly once, by whoever gets there first
			w.CloseClient(A)
			close(closed)
		})
	}
	if a.Bool("outage") { // the close lands while the client is redialling an unreachable server
		w.Proxy.SetDown(true)
	}
	w.Rec.FireAt(w.Rec.HookCount()+at, fire)
	var wg sync.WaitGroup
	call := func(kind string, tok int, gated bool, arg ...interface{}) {
		w.Plan(tok, &Plan{Gated: gated})
		wg.Add(1)
		go func() {
			defer wg.Done()
			A.Call(context.Background(), kind, tok, arg...)
		}()
	}
	call("unary", 1, true)
	call("unary", 2, false)
	call("big", 3, false, 300000)
	call("retry", 5, true)
	call("notify", 6, false)
	step := make(chan struct{}, 16)
	w.Plan(4, &Plan{Step: step, NoClose: true})
	d := make(chan struct{})
	var ch <-chan [2]int
	out := ""
	wg.Add(1)
	go func() {
		defer wg.Done()
		ch, out = A.Subscribe(context.Background(), 4, 6, "")
		if out == "ok" && ch != nil {
			w.Consume(4, ch, nil, d)
		} else {
			close(d)
		}
	}()
	for i := 0; i < 3; i++ {
		step <- struct{}{}
		time.Sleep(300 * time.Microsecond)
	}
	if a.Bool("outage") {
		time.Sleep(time.Millisecond)
		if pc := w.Proxy.Last(); pc != nil {
			w.Rec.Emit("WireFault", "conn", pc.ID, "fault", "kill/fin", "dir", "both", "frame", 0)
			pc.Kill("fin")
		}
		call("unary", 7, false)
		call("retry", 8, false)
	}
	time.Sleep(time.Duration(a.Int("runms", 4)) * time.Millisecond)
	select {
	case <-closed:
	default: // the chosen instant was never reached (or the closer is still running): make sure it has been invoked
		w.Rec.FireAt(0, nil)
		go fire()
	}
	closerReturned := waitCh(closed, patience(4*time.Second))
	w.Release(1)
	w.Release(5)
	w.Release(4)
	done := make(chan struct{})
	go func() { wg.Wait(); close(done) }()
	waitCh(done, patience(3*time.Second))
	waitCh(d, patience(2*time.Second))
	// a later call must fail promptly
	late := A.CallT("unary", 20, patience(2*time.Second))
	time.Sleep(time.Duration(a.Int("afterms", 25)) * time.Millisecond) // a late redial would show up here
	expect := []int{}
	if out == "ok" && ch != nil {
		expect = append(expect, 4)
	}
	w.Rec.Emit("Quiesce", "cli", "", "probe", "none", "waiting", intsOrEmpty(w.Waiting()), "lost", []int{}, "expectClosed", expect,
		"closerReturned", closerReturned, "late", late)
	return nil
}

// c18.badchan: the peer answers a channel-returning call with something that is no channel id; the call stays pending
// (the library logs and drops the response) - closing the client must still release it.
func scC18BadChan(w *World, a Args, rng *rand.Rand) error {
	A, err := w.NewClient(ClientOpts{Name: "A", NoPing: true})
	if err != nil {
		return err
	}
	pc := w.Proxy.Last()
	w.Plan(4, &Plan{})
	done := make(chan struct{})
	go func() {
		defer close(done)
		A.Subscribe(context.Background(), 4, 2, "")
	}()
	pc.AddRule(&Rule{Dir: S2C, Frame: 1, Pos: "rewrite", Payload: []byte(`{"jsonrpc":"2.0","id":1,"result":"not-a-channel-id"}`)})
	time.Sleep(10 * time.Millisecond)
	closed := make(chan struct{})
	go func() { w.CloseClient(A); close(closed) }()
	closerReturned := waitCh(closed, patience(4*time.Second))
	waitCh(done, patience(2*time.Second))
	late := A.CallT("unary", 20, patience(2*time.Second))
	w.Rec.Emit("Quiesce", "cli", "", "probe", "none", "waiting", intsOrEmpty(w.Waiting()), "lost", []int{}, "expectClosed", []int{},
		"closerReturned", closerReturned, "late", late)
	return nil
}

func init() { scenarios["c18.otherclosers"] = scC18OtherClosers }

// c18.otherclosers: closers of HTTP and custom-transport clients return at once and leave calls in progress alone.
func scC18OtherClosers(w *World, a Args, rng *rand.Rand) error {
	H, err := w.NewClient(ClientOpts{Name: "H", HTTP: true})
	if err != nil {
		return err
	}
	var capi API
	closer, err := jsonrpc.NewCustomClient("H", []interface{}{&capi}, func(ctx context.Context, body []byte) (io.ReadCloser, error) {
		var buf bytes.Buffer
		w.Srv.HandleRequest(ctx, bytes.NewReader(body), &buf)
		return io.NopCloser(&buf), nil
	})
	if err != nil {
		return err
	}
	C := &Client{Name: "C", API: capi, Closer: closer, HTTP: true, w: w}
	var wg sync.WaitGroup
	for i, c := range []*Client{H, C} {
		tok := 1 + i
		w.Plan(tok, &Plan{Gated: true})
		wg.Add(1)
		go func(c *Client, tok int) {
			defer wg.Done()
			c.Call(context.Background(), "unary", tok)
		}(c, tok)
		w.WaitRunning(tok, time.Second)
	}
	ok := true
	for _, c := range []*Client{H, C} {
		w.Rec.Emit("CloserStart", "cli", c.Name)
		d := make(chan struct{})
		go func(c *Client) { c.Closer(); close(d) }(c)
		if !waitCh(d, time.Second) {
			ok = false
		}
		w.Rec.Emit("CloserEnd", "cli", c.Name)
	}
	w.mu.Lock()
	delete(w.clients, "H")
	w.mu.Unlock()
	w.Release(1)
	w.Release(2)
	done := make(chan struct{})
	go func() { wg.Wait(); close(done) }()
	waitCh(done, patience(3*time.Second))
	w.Rec.Emit("Quiesce", "cli", "", "probe", "none", "waiting", intsOrEmpty(w.Waiting()), "lost", []int{}, "closerReturned", ok, "inprogress", []int{1, 2})
	return nil
}
