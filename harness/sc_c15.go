package main

import (
	"bytes"
	"context"
	"math/rand"
	"regexp"
	"runtime/pprof"
	"strings"
	"sync"
	"time"
)

func init() { scenarios["c15.end"] = scC15End }

var labelRe = regexp.MustCompile(`(?m)^# labels: (.*)$`)

// serverGoroutines counts goroutines carrying the pprof labels the library attaches to server-side connections and
// returns the function names on top of their stacks.
func serverGoroutines(remote string) (int, []string) {
	var buf bytes.Buffer
	pprof.Lookup("goroutine").WriteTo(&buf, 1)
	n := 0
	var tops []string
	for _, blk := range strings.Split(buf.String(), "\n\n") {
		if !strings.Contains(blk, `"jrpc-mode":"wsserver"`) || !strings.Contains(blk, `"jrpc-remote":"`+remote+`"`) {
			continue // not a goroutine of the connection in question (earlier scenarios may still be winding down)
		}
		first := strings.SplitN(blk, " ", 2)[0]
		var cnt int
		for _, ch := range first {
			if ch < '0' || ch > '9' {
				break
			}
			cnt = cnt*10 + int(ch-'0')
		}
		if cnt == 0 {
			cnt = 1
		}
		n += cnt
		for _, ln := range strings.Split(blk, "\n") {
			if strings.HasPrefix(ln, "#\t") && strings.Contains(ln, "go-jsonrpc") {
				f := strings.Fields(ln)
				if len(f) >= 3 {
					tops = append(tops, f[2])
				}
				break
			}
		}
	}
	return n, tops
}

// c15.end: a connection with handlers in progress (unary with id, notification, streaming, large response, reverse
// calling) ends for one of the causes; every handler context must be cancelled and, once the handlers are back, the
// server must not keep any goroutine for the dead connection.
func scC15End(w *World, a Args, rng *rand.Rand) error {
	applyDelays(w, a)
	cause := a.Str("cause", "fin") // graceful | fin | rst | srvcancel
	A, err := w.NewClient(ClientOpts{Name: "A", NoPing: a.Bool("noping") || a.Bool("bigblocked") || a.Bool("stalled"), NoReconnect: true, Reverse: true, Ping: 20 * time.Millisecond, Timeout: 2 * time.Second})
	if err != nil {
		return err
	}
	pc := w.Proxy.Last()
	w.ArmCause() // the handlers' patience runs from the end cause below, not from their start
	defer w.MarkCause()
	react := time.Duration(a.Int("reactms", 0)) * time.Millisecond
	var wg sync.WaitGroup
	call := func(kind string, tok int, arg ...interface{}) {
		w.Plan(tok, &Plan{WaitCtx: true, ReactDelay: react})
		wg.Add(1)
		go func() {
			defer wg.Done()
			A.Call(context.Background(), kind, tok, arg...)
		}()
	}
	toks := []int{}
	mix, _ := a["mix"].([]interface{})
	for i, m := range mix {
		tok := 1 + i
		toks = append(toks, tok)
		switch m.(string) {
		case "unary":
			call("unary", tok)
		case "notify":
			call("notify", tok)
		case "big":
			call("big", tok, a.Int("bigsize", 1<<20))
		case "reverse":
			call("callbackafter", tok)
		case "stream":
			w.Plan(tok, &Plan{NoClose: true, WaitCtx: true})
			wg.Add(1)
			go func() {
				defer wg.Done()
				ch, out := A.Subscribe(context.Background(), tok, 3, "")
				if out == "ok" && ch != nil {
					d := make(chan struct{})
					w.Consume(tok, ch, nil, d)
					waitCh(d, patience(4*time.Second))
				}
			}()
		}
	}
	for _, t := range toks {
		w.WaitRunning(t, time.Second)
	}
	time.Sleep(2 * time.Millisecond)
	if a.Bool("stalled") {
		pc.Stall(S2C, true) // the peer stops reading: large responses block in the writer
	}
	if a.Bool("bigblocked") {
		// a response far larger than the socket buffers is being written to a peer that has stopped reading when the end comes
		pc.Stall(S2C, true)
		entered := w.Rec.Watch("wl.enter@server")
		w.Plan(80, &Plan{})
		wg.Add(1)
		go func() {
			defer wg.Done()
			A.Call(context.Background(), "big", 80, 48<<20)
		}()
		// rendering tens of megabytes takes a moment; once the response writer holds the connection's write lock the socket
		// buffers fill up and the writer sits blocked
		waitCh(entered, patience(3*time.Second))
		time.Sleep(150 * time.Millisecond)
	}
	if n := a.Int("latesubs", 0); n > 0 {
		// while the writer is blocked, streaming handlers return their channels: the first registration occupies the forwarder
		// (it waits for the write lock), the next ones wait for the forwarder - all of them must be let go when the end comes
		for k := 0; k < n; k++ {
			tok := 81 + k
			w.Plan(tok, &Plan{NoClose: true, WaitCtx: true})
			wg.Add(1)
			go func(tok int) {
				defer wg.Done()
				ctx, cancel := context.WithTimeout(context.Background(), 3*time.Second)
				defer cancel()
				A.Subscribe(ctx, tok, 3, "")
			}(tok)
			dl := time.Now().Add(time.Second)
			for seen := false; !seen && time.Now().Before(dl); time.Sleep(time.Millisecond) {
				for _, e := range w.Rec.Events() {
					if e["ev"] == "HandlerEnd" && e["call"] == tok {
						seen = true
					}
				}
			}
			time.Sleep(5 * time.Millisecond)
		}
	}
	gated := false
	if a.Bool("gatereader") {
		// the server-side reader has a message in hand (not yet handed to the main loop) when the end comes
		w.Rec.Gate("rd.msg.pre@server")
		go A.CallT("notify", 91, 300*time.Millisecond)
		gated = w.Rec.WaitParked("rd.msg.pre@server", time.Second)
	}
	if a.Bool("emptyframe") {
		pc.InjectEmptyToServer() // a peer may send an empty message; the server goes on reading afterwards
		time.Sleep(5 * time.Millisecond)
	}
	if a.Bool("partial") {
		// the server has the beginning of a frame in hand (its reader is inside the frame body) when the end comes
		pc.AddRule(&Rule{Dir: C2S, Frame: 0, Pos: "cut-payload", Style: "hole"})
		go A.CallT("notify", 92, 200*time.Millisecond)
		time.Sleep(20 * time.Millisecond)
	}
	if a.Bool("inflight") {
		// a frame is on its way to the main loop when the end comes
		go A.CallT("notify", 90, 200*time.Millisecond)
	}
	w.MarkCause()
	switch cause {
	case "graceful":
		go w.CloseClient(A)
	case "fin", "rst":
		w.Rec.Emit("WireFault", "conn", pc.ID, "fault", "kill/"+cause, "dir", "both", "frame", 0)
		pc.Kill(cause)
	case "srvcancel":
		w.CancelSrvConn(1)
	case "halffin":
		pc.HalfCloseToServer() // the peer is done sending (FIN) but its side of the connection stays open and unread
	}
	// wait for the connection handler to return on the server
	dl := time.Now().Add(patience(4 * time.Second))
	ended := false
	for time.Now().Before(dl) && !ended {
		for _, e := range w.Rec.Events() {
			if e["ev"] == "ConnEnded" {
				ended = true
			}
		}
		time.Sleep(time.Millisecond)
	}
	if gated {
		time.Sleep(2 * time.Millisecond)
		w.Rec.Open("rd.msg.pre@server")
	}
	if a.Bool("stalled") || a.Bool("bigblocked") {
		time.Sleep(20 * time.Millisecond)
		pc.Stall(S2C, false)
	}
	// the handlers come back (they were waiting for their contexts) ...
	hd := make(chan struct{})
	go func() { w.handlerWG.Wait(); close(hd) }()
	waitCh(hd, patience(4*time.Second))
	done := make(chan struct{})
	go func() { wg.Wait(); close(done) }()
	waitCh(done, patience(3*time.Second))
	// ... and then nothing may be left behind for the dead connection
	n, tops := 0, []string{}
	dl = time.Now().Add(patience(6 * time.Second)) // (a handler still rendering tens of megabytes on a starved machine is slow, not retained)
	for {
		w.mu.Lock()
		remote := w.srvRemote[1]
		w.mu.Unlock()
		n, tops = serverGoroutines(remote)
		if n <= 0 || time.Now().After(dl) {
			break
		}
		time.Sleep(5 * time.Millisecond)
	}
	if n < 0 {
		n = 0
	}
	if tops == nil || n == 0 {
		tops = []string{}
	}
	w.Rec.Emit("ConnGoroutines", "srvconn", 1, "n", n, "where", strings.Join(tops, " "), "connEnded", ended)
	w.Rec.Emit("Quiesce", "cli", "", "probe", "none", "waiting", intsOrEmpty(w.Waiting()), "lost", []int{})
	return nil
}
