package main

import (
	"bytes"
	"context"
	"crypto/sha256"
	"encoding/hex"
	"encoding/json"
	"fmt"
	"github.com/google/uuid"
	"io"
	"math/rand"
	"net/http"
	"net/http/httptest"
	"path"
	"reflect"
	"runtime"
	"strings"
	"sync"
	"sync/atomic"
	"time"

	jsonrpc "github.com/filecoin-project/go-jsonrpc"
	"github.com/filecoin-project/go-jsonrpc/httpio"
)

// C20: reader parameters through the real httpio encoder / decoder pair.

func init() { register("c20", runC20) }

type c20Ev = map[string]interface{}

type c20Log struct {
	mu  sync.Mutex
	evs []c20Ev
}

// waitFor polls the log until some event satisfies f (or d has passed).
func (l *c20Log) waitFor(d time.Duration, f func(c20Ev) bool) bool {
	dl := time.Now().Add(d)
	for {
		l.mu.Lock()
		for _, e := range l.evs {
			if f(e) {
				l.mu.Unlock()
				return true
			}
		}
		l.mu.Unlock()
		if time.Now().After(dl) {
			return false
		}
		time.Sleep(500 * time.Microsecond)
	}
}

func (l *c20Log) add(evs ...c20Ev) {
	l.mu.Lock()
	l.evs = append(l.evs, evs...)
	l.mu.Unlock()
}

// tagBody wraps the upload request body so that the RPC handler can tell which upload it is reading.
type tagBody struct {
	io.ReadCloser
	uuid string
}

type c20Env struct {
	log      *c20Log
	mu       sync.Mutex
	upSeen   map[string]chan struct{} // uuid -> closed when the upload reached the server
	rpcSeen  map[string]chan struct{} // uuid -> closed when the RPC request carrying it reached the server
	uuidCall map[string]int
	order    string
	upDone   sync.WaitGroup
	skew     time.Duration // order "tie": > 0 delays the request, < 0 the upload, by that much after both have arrived
	barrier  chan struct{} // closed when every handler of a barrier scenario has started
	need     int
	arrived  int
}

// waitBarrier makes the handlers of one scenario wait for each other before they start reading.
func (e *c20Env) waitBarrier(ctx context.Context) bool {
	e.mu.Lock()
	e.arrived++
	if e.arrived == e.need {
		closeOnce(e.barrier)
	}
	b := e.barrier
	e.mu.Unlock()
	select {
	case <-b:
		return true
	case <-ctx.Done():
		return false
	}
}

func (e *c20Env) ch(m map[string]chan struct{}, u string) chan struct{} {
	e.mu.Lock()
	defer e.mu.Unlock()
	c, ok := m[u]
	if !ok {
		c = make(chan struct{})
		m[u] = c
	}
	return c
}

func closeOnce(c chan struct{}) {
	defer func() { recover() }()
	close(c)
}

// spin busy-waits for d (sleeping would hand the processor over and blur a microsecond-scale offset).
func spin(d time.Duration) {
	for t0 := time.Now(); time.Since(t0) < d; {
	}
}

type c20H struct{ env *c20Env }

func digest(b []byte) string { s := sha256.Sum256(b); return hex.EncodeToString(s[:8]) }

func errClass(err error) string {
	switch {
	case err == nil:
		return "nil"
	case err == io.EOF:
		return "eof"
	default:
		return "other"
	}
}

// Consume runs one read pattern on the reader and reports what it saw.
func (h *c20H) Consume(ctx context.Context, tok int, pattern string, r io.Reader) (string, error) {
	lg := h.env.log
	lg.add(c20Ev{"ev": "hstart", "c": tok})
	// which upload are we reading? (waitReadCloser embeds the request body we tagged)
	func() {
		defer func() { recover() }()
		if tb, ok := reflect.ValueOf(r).Elem().FieldByName("ReadCloser").Interface().(*tagBody); ok {
			h.env.mu.Lock()
			h.env.uuidCall[tb.uuid] = tok
			h.env.mu.Unlock()
		}
	}()
	if strings.HasPrefix(pattern, "barrier+") {
		pattern = pattern[len("barrier+"):]
		if !h.env.waitBarrier(ctx) {
			return "", fmt.Errorf("barrier: the other handlers of this scenario never started (their uploads or requests did not arrive)")
		}
	}
	var got []byte
	read := func(bufSize int) (int, error) {
		buf := make([]byte, bufSize)
		lg.add(c20Ev{"ev": "readbegin", "c": tok})
		n, err := r.Read(buf)
		got = append(got, buf[:n]...)
		lg.add(c20Ev{"ev": "readend", "c": tok, "n": n, "cls": errClass(err)})
		return n, err
	}
	closeR := func() {
		if c, ok := r.(io.Closer); ok {
			lg.add(c20Ev{"ev": "closebegin", "c": tok})
			c.Close()
			lg.add(c20Ev{"ev": "closeend", "c": tok})
		}
	}
	toEOF := func(bufSize int) {
		for i := 0; i < 1<<22; i++ {
			if _, err := read(bufSize); err != nil {
				return
			}
		}
	}
	if strings.HasPrefix(pattern, "ops:") {
		// a TLC-generated handler script: r = one Read, c = Close, s = short pause; then drain unless closed
		sawErr, didClose := false, false
		for _, op := range pattern[4:] {
			switch op {
			case 'r':
				if _, err := read(1024); err != nil {
					sawErr = true
				}
			case 'c':
				if !didClose {
					closeR()
					didClose = true
				}
			case 's':
				time.Sleep(8 * time.Millisecond)
			}
		}
		if !sawErr && !didClose {
			toEOF(1024)
		}
	}
	switch pattern {
	case "readall":
		toEOF(32 << 10)
	case "small":
		toEOF(512)
	case "bytewise":
		toEOF(1)
	case "pasteof":
		toEOF(4096)
		read(16)
		read(16)
	case "pasteofslow":
		toEOF(4096)
		time.Sleep(30 * time.Millisecond)
		read(16)
		time.Sleep(5 * time.Millisecond)
		read(1)
	case "pasteofpeer":
		// reads on after EOF while ANOTHER call's handler is at work (its upload arrived after this one was complete)
		toEOF(4096)
		lg.waitFor(1500*time.Millisecond, func(e c20Ev) bool { return e["ev"] == "hstart" && e["c"] != tok })
		time.Sleep(3 * time.Millisecond)
		read(16)
		read(16)
	case "eofclose":
		toEOF(4096)
		closeR()
	case "eofcloseread":
		toEOF(4096)
		closeR()
		read(16)
	case "closefirst":
		closeR()
	case "partialclose":
		read(64)
		closeR()
	}
	d := digest(got)
	lg.add(c20Ev{"ev": "hreturn", "c": tok, "digest": d, "gotlen": len(got), "got": got})
	return d, nil
}

type c20API struct {
	Consume func(ctx context.Context, tok int, pattern string, r io.Reader) (string, error)
}

type slowReader struct {
	r     io.Reader
	chunk int
	d     time.Duration
}

func (s *slowReader) Read(p []byte) (int, error) {
	if len(p) > s.chunk {
		p = p[:s.chunk]
	}
	time.Sleep(s.d)
	return s.r.Read(p)
}

// gateTransport delays the RPC request until the upload it refers to has reached the server ("upfirst").
type gateTransport struct {
	env *c20Env
	rt  http.RoundTripper
}

func (g *gateTransport) RoundTrip(req *http.Request) (*http.Response, error) {
	if g.env.order == "upfirst" && req.Body != nil {
		b, _ := io.ReadAll(req.Body)
		req.Body = io.NopCloser(bytes.NewReader(b))
		if u := c20UUID(b); u != "" {
			select {
			case <-g.env.ch(g.env.upSeen, u):
			case <-time.After(2 * time.Second):
			}
			time.Sleep(2 * time.Millisecond)
		}
	}
	return g.rt.RoundTrip(req)
}

func c20UUID(body []byte) string {
	var req struct {
		Params []json.RawMessage `json:"params"`
	}
	if json.Unmarshal(body, &req) != nil || len(req.Params) < 3 {
		return ""
	}
	var u string
	json.Unmarshal(req.Params[2], &u)
	return u
}

func c20Scenario(rng *rand.Rand, sc int, transport, order string, calls []map[string]interface{}, w *TraceWriter) {
	env := &c20Env{log: &c20Log{}, upSeen: map[string]chan struct{}{}, rpcSeen: map[string]chan struct{}{}, uuidCall: map[string]int{}, order: order,
		barrier: make(chan struct{})}
	if order == "tie" {
		env.skew = time.Duration(rng.Intn(161)-80) * time.Microsecond
	}
	for _, c := range calls {
		if strings.HasPrefix(c["pattern"].(string), "barrier+") {
			env.need++
		}
	}
	upHandler, opt := httpio.ReaderParamDecoder()
	srv := jsonrpc.NewServer(opt)
	srv.Register("R", &c20H{env})
	mux := http.NewServeMux()
	mux.HandleFunc("/rpc/v0", func(rw http.ResponseWriter, req *http.Request) {
		if req.Header.Get("Upgrade") == "" {
			b, _ := io.ReadAll(req.Body)
			req.Body = io.NopCloser(bytes.NewReader(b))
			if u := c20UUID(b); u != "" {
				closeOnce(env.ch(env.rpcSeen, u))
				if env.order == "tie" { // request and upload enter the library at (almost) the same instant
					select {
					case <-env.ch(env.upSeen, u):
					case <-time.After(2 * time.Second):
					}
					if env.skew > 0 {
						spin(env.skew)
					}
				}
			}
		}
		srv.ServeHTTP(rw, req)
	})
	mux.HandleFunc("/push/", func(rw http.ResponseWriter, req *http.Request) {
		u := path.Base(req.URL.Path)
		env.upDone.Add(1)
		defer env.upDone.Done()
		env.log.add(c20Ev{"ev": "uparrive", "u": u})
		closeOnce(env.ch(env.upSeen, u))
		if env.order == "tie" {
			select {
			case <-env.ch(env.rpcSeen, u):
			case <-time.After(2 * time.Second):
			}
			if env.skew < 0 {
				spin(-env.skew)
			}
		}
		if env.order == "decfirst" {
			select {
			case <-env.ch(env.rpcSeen, u):
			case <-time.After(2 * time.Second):
			}
			time.Sleep(15 * time.Millisecond)
		}
		req.Body = &tagBody{req.Body, u}
		rec := &statusRec{ResponseWriter: rw, code: 200}
		upHandler(rec, req)
		env.log.add(c20Ev{"ev": "upreturn", "u": u, "status": rec.code})
	})
	ts := httptest.NewServer(mux)
	defer func() {
		// never let stuck server-side handlers wedge the harness: drop the connections, then close in the background
		ts.CloseClientConnections()
		done := make(chan struct{})
		go func() { ts.Close(); close(done) }()
		select {
		case <-done:
		case <-time.After(2 * time.Second):
		}
	}()
	addr := ts.Listener.Addr().String()
	re := httpio.ReaderParamEncoder("http://" + addr + "/push")
	var api c20API
	url := "http://" + addr + "/rpc/v0"
	opts := []jsonrpc.Option{re}
	if transport == "ws" {
		url = "ws://" + addr + "/rpc/v0"
	} else {
		opts = append(opts, jsonrpc.WithHTTPClient(&http.Client{Transport: &gateTransport{env, http.DefaultTransport}}))
	}
	closer, err := jsonrpc.NewMergeClient(context.Background(), url, "R", []interface{}{&api}, nil, opts...)
	if err != nil {
		w.Emit(c20Ev{"ev": "reset", "sc": sc, "transport": transport, "order": order, "chunks": []int{0}})
		w.Emit(c20Ev{"ev": "callstart", "c": 1, "len": 0, "digest": ""})
		w.Emit(c20Ev{"ev": "callend", "c": 1, "outcome": "harness:" + err.Error()})
		w.Emit(c20Ev{"ev": "quiesce"})
		return
	}
	var wg sync.WaitGroup
	payloads := map[int][]byte{}
	for i, c := range calls {
		tok := i + 1
		n := int(c["len"].(float64))
		data := make([]byte, n)
		rng.Read(data)
		payloads[tok] = data
		env.log.add(c20Ev{"ev": "callstart", "c": tok, "len": n, "digest": digest(data), "pattern": c["pattern"]})
		var rd io.Reader = bytes.NewReader(data)
		// readers that know their size and are handed over partly consumed: only what is left belongs to the parameter
		pre := []byte("consumed-before-the-call:")
		whole := append(append([]byte{}, pre...), data...)
		skip := func(r io.Reader) io.Reader { io.ReadFull(r, make([]byte, len(pre))); return r }
		switch c["src"] {
		case "partbytes":
			rd = skip(bytes.NewReader(whole))
		case "partstr":
			rd = skip(strings.NewReader(string(whole)))
		case "section":
			rd = skip(io.NewSectionReader(bytes.NewReader(whole), 0, int64(len(whole))))
		case "slow":
			rd = &slowReader{r: rd, chunk: 1 + n/7, d: time.Millisecond}
		case "pipe":
			pr, pw := io.Pipe()
			go func() { pw.Write(data); pw.Close() }()
			rd = pr
		}
		wg.Add(1)
		after := 0
		if v, ok := c["after_eof_of"].(float64); ok {
			after = int(v)
		}
		go func(tok int, pattern string, rd io.Reader) {
			defer wg.Done()
			if after > 0 { // issued only once call `after`'s handler has read its parameter to the end
				env.log.waitFor(2*time.Second, func(e c20Ev) bool { return e["ev"] == "readend" && e["c"] == after && e["cls"] == "eof" })
			}
			ctx, cancel := context.WithTimeout(context.Background(), 6*time.Second)
			defer cancel()
			done := make(chan c20Ev, 1)
			go func() {
				d, err := api.Consume(ctx, tok, pattern, rd)
				out := "ok"
				if err != nil {
					out = "herr"
					if strings.Contains(err.Error(), "panic") {
						out = "panic"
					}
					done <- c20Ev{"ev": "callend", "c": tok, "outcome": out, "err": err.Error()}
					return
				}
				done <- c20Ev{"ev": "callend", "c": tok, "outcome": out, "digest": d}
			}()
			select {
			case ev := <-done:
				env.log.add(ev)
			case <-time.After(8 * time.Second):
				env.log.add(c20Ev{"ev": "callend", "c": tok, "outcome": "hung"})
			}
		}(tok, c["pattern"].(string), rd)
	}
	wg.Wait()
	// quiescence: every upload request that reached the server has completed (generous bound, only waited on failing trees)
	upq := make(chan struct{})
	go func() { env.upDone.Wait(); close(upq) }()
	select {
	case <-upq:
	case <-time.After(3 * time.Second):
	}
	time.Sleep(2 * time.Millisecond)
	cd := make(chan struct{})
	go func() { closer(); close(cd) }()
	select {
	case <-cd:
	case <-time.After(3 * time.Second):
	}
	c20Emit(env, sc, transport, order, payloads, w)
}

// c20Emit writes the events of one finished scenario (reset line with the trace-derived constants, the log, quiesce).
func c20Emit(env *c20Env, sc int, transport, order string, payloads map[int][]byte, w *TraceWriter) {
	env.log.mu.Lock()
	evs := append([]c20Ev{}, env.log.evs...)
	env.log.mu.Unlock()
	env.mu.Lock()
	// trace-derived constants of the binding specification: data-returning reads per call
	chunks := make([]int, 4)
	for _, ev := range evs {
		if ev["ev"] == "readend" && ev["n"].(int) > 0 {
			chunks[ev["c"].(int)-1]++
		}
	}
	w.Emit(c20Ev{"ev": "reset", "sc": sc, "transport": transport, "order": order, "chunks": chunks})
	for _, ev := range evs {
		if u, ok := ev["u"].(string); ok {
			c, known := env.uuidCall[u]
			if !known {
				c = 4 // an upload nobody read: attribute to a spare slot
			}
			ev["c"] = c
			delete(ev, "u")
		}
		if ev["ev"] == "hreturn" {
			got := ev["got"].([]byte)
			data := payloads[ev["c"].(int)]
			ev["prefix"] = len(got) <= len(data) && bytes.Equal(got, data[:len(got)])
			delete(ev, "got")
		}
		w.Emit(ev)
	}
	env.mu.Unlock()
	w.Emit(c20Ev{"ev": "quiesce"})
}

// c20TieRounds: the upload and the request naming it enter the library's rendez-vous at the same moment, in process (no HTTP
// stack in between), behind a spin barrier, with offsets swept in quarter-microsecond steps. Rounds in which the call does not
// get its bytes are written out as scenarios (plus the first few rounds as samples); the others only count.
func c20TieRounds(rng *rand.Rand, sc int, rounds int, w *TraceWriter) int {
	bad := 0
	for r := 0; r < rounds; r++ {
		env := &c20Env{log: &c20Log{}, upSeen: map[string]chan struct{}{}, rpcSeen: map[string]chan struct{}{}, uuidCall: map[string]int{}, order: "tie",
			barrier: make(chan struct{})}
		upHandler, opt := httpio.ReaderParamDecoder()
		srv := jsonrpc.NewServer(opt)
		srv.Register("R", &c20H{env})
		id := uuid.New().String()
		data := make([]byte, 1+rng.Intn(64))
		rng.Read(data)
		env.log.add(c20Ev{"ev": "callstart", "c": 1, "len": len(data), "digest": digest(data), "pattern": "readall"})
		skew := time.Duration((r%41)-20) * 250 * time.Nanosecond
		var ready int32
		meet := func(delay time.Duration) {
			atomic.AddInt32(&ready, 1)
			for atomic.LoadInt32(&ready) < 2 {
			}
			if delay > 0 {
				spin(delay)
			}
		}
		var wg sync.WaitGroup
		wg.Add(2)
		go func() { // the upload
			defer wg.Done()
			ctx, cancel := context.WithTimeout(context.Background(), 400*time.Millisecond)
			defer cancel()
			req := httptest.NewRequest("POST", "/push/"+id, bytes.NewReader(data)).WithContext(ctx)
			req.Body = &tagBody{req.Body, id}
			rec := httptest.NewRecorder()
			env.log.add(c20Ev{"ev": "uparrive", "u": id})
			meet(-skew)
			upHandler(rec, req)
			env.log.add(c20Ev{"ev": "upreturn", "u": id, "status": rec.Code})
		}()
		go func() { // the request
			defer wg.Done()
			ctx, cancel := context.WithTimeout(context.Background(), 400*time.Millisecond)
			defer cancel()
			body := fmt.Sprintf(`{"jsonrpc":"2.0","id":1,"method":"R.Consume","params":[1,"readall",%q]}`, id)
			var out bytes.Buffer
			meet(skew)
			srv.HandleRequest(ctx, strings.NewReader(body), &out)
			var resp struct {
				Result string          `json:"result"`
				Error  json.RawMessage `json:"error"`
			}
			if json.Unmarshal(out.Bytes(), &resp) == nil && len(resp.Error) == 0 && resp.Result != "" {
				env.log.add(c20Ev{"ev": "callend", "c": 1, "outcome": "ok", "digest": resp.Result})
			} else {
				env.log.add(c20Ev{"ev": "callend", "c": 1, "outcome": "herr", "err": out.String()})
			}
		}()
		wg.Wait()
		ok := false
		env.log.mu.Lock()
		for _, e := range env.log.evs {
			if e["ev"] == "callend" && e["outcome"] == "ok" && e["digest"] == digest(data) {
				ok = true
			}
		}
		env.log.mu.Unlock()
		if !ok {
			bad++
		}
		if !ok && bad <= 3 || r < 3 {
			c20Emit(env, sc, "inproc", "tie", map[int][]byte{1: data}, w)
			sc++
		}
	}
	return bad
}

type statusRec struct {
	http.ResponseWriter
	code int
}

func (s *statusRec) WriteHeader(c int) { s.code = c; s.ResponseWriter.WriteHeader(c) }

func runC20(env *Env) error {
	scs, err := readNDJSON(env.In)
	if err != nil {
		return err
	}
	rng := rand.New(rand.NewSource(env.Seed))
	for i, sc := range scs {
		var calls []map[string]interface{}
		for _, c := range sc["calls"].([]interface{}) {
			calls = append(calls, c.(map[string]interface{}))
		}
		if n, ok := sc["tierounds"].(float64); ok {
			c20TieRounds(rng, 100000+i*10, int(n), env.W)
			continue
		}
		if p, ok := sc["procs"].(float64); ok && p >= 1 { // a single P makes per-P caches (sync.Pool) shared by everything
			old := runtime.GOMAXPROCS(int(p))
			c20Scenario(rng, i+1, sc["transport"].(string), sc["order"].(string), calls, env.W)
			runtime.GOMAXPROCS(old)
			continue
		}
		c20Scenario(rng, i+1, sc["transport"].(string), sc["order"].(string), calls, env.W)
	}
	return nil
}

var _ = fmt.Sprint
