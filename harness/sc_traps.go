package main

import (
	"context"
	"math/rand"
	"time"
)

// Trap scenarios: counterexamples / witnesses found by TLC on WsRpc.tla, forced onto the real code with gates at
// the library's hook points (the same points the trace specification binds to).

func init() {
	scenarios["trap.staledelete"] = scTrapStaleDelete
	scenarios["trap.closerace"] = scTrapCloseRace
	scenarios["trap.chanclose"] = scTrapChanClose
	scenarios["trap.subcancel"] = scTrapSubCancel
	scenarios["trap.chanval"] = scTrapChanVal
}

// trap.chanval (WsRpc: ExLookup of a "val" frame followed by MainCloseChans): the executor is handing a channel value to the
// subscription's sink when the peer drops the connection and the main loop sweeps the channel handlers. The sweep waits for the
// hand-over (or the hand-over sees the sink closed in an orderly way); nothing crashes, nothing stays blocked, the client heals.
func scTrapChanVal(w *World, a Args, rng *rand.Rand) error {
	c, err := w.NewClient(ClientOpts{Name: "A", NoPing: true, BackoffMin: 2 * time.Millisecond, BackoffMax: 5 * time.Millisecond})
	if err != nil {
		return err
	}
	step := make(chan struct{}, 8)
	w.Plan(3, &Plan{Step: step, NoClose: true, NoCloseMs: 1000})
	d := make(chan struct{})
	go func() {
		ch, out := c.Subscribe(context.Background(), 3, 3, "")
		if out == "ok" && ch != nil {
			w.Consume(3, ch, nil, d)
		} else {
			close(d)
		}
	}()
	w.WaitRunning(3, time.Second)
	time.Sleep(5 * time.Millisecond)
	w.Rec.Gate("sink.val.pre")
	sweep := w.Rec.Watch("closechans.pre@client")
	step <- struct{}{} // one value travels to the client; its hand-over to the sink is held
	if w.Rec.WaitParked("sink.val.pre", 2*time.Second) {
		w.Rec.Emit("WireFault", "conn", 1, "fault", "kill/fin", "dir", "both", "frame", 0)
		w.Proxy.Last().Kill("fin")
		waitCh(sweep, 2*time.Second)
		time.Sleep(20 * time.Millisecond)
	}
	w.Rec.OpenAll()
	waitCh(d, patience(3*time.Second))
	w.Release(3)
	dl := time.Now().Add(patience(3 * time.Second))
	for tok := 6; tok < 6+40*10 && time.Now().Before(dl); tok += 10 {
		if out := c.CallT("unary", tok, patience(2*time.Second)); out == "ok" || out == "pending" {
			break
		}
		time.Sleep(3 * time.Millisecond)
	}
	w.Quiesce(c, 1000, 2*time.Second)
	return nil
}

// trap.subcancel (WsRpc: CtxCancel while cst = "wait" with the main loop inside MainWrite, then ExRegChan / ExDeliver): the caller
// of a subscription gives up while the connection goroutine is stuck writing another (large) request, so the cancel notification
// cannot be handed over yet; the subscription's response, already past the main loop, is processed only then. Whatever the order, the server-side handler must learn of
// the cancellation (through the queued cancel request or through the subscription's context watcher).
func scTrapSubCancel(w *World, a Args, rng *rand.Rand) error {
	c, err := w.NewClient(ClientOpts{Name: "A", NoPing: true})
	if err != nil {
		return err
	}
	pc := w.Proxy.Last()
	w.Rec.Gate("exec.pop@client") // the response will get as far as the client's frame executor and wait there
	ctx, cancel := context.WithCancel(context.Background())
	defer cancel()
	w.Plan(3, &Plan{NoClose: true, WaitCtx: true, NoCloseMs: 1500})
	w.ArmCause() // the handler's patience runs from the moment the link flows again, not from the end of its stream
	defer w.MarkCause()
	d := make(chan struct{})
	go func() {
		ch, out := c.Subscribe(ctx, 3, 2, "")
		if out == "ok" && ch != nil {
			w.Consume(3, ch, nil, d)
		} else {
			close(d)
		}
	}()
	if !w.Rec.WaitParked("exec.pop@client", 2*time.Second) {
		w.Rec.OpenAll()
		w.Quiesce(c, 1000, time.Second)
		return nil
	}
	pc.Stall(C2S, true) // the peer stops reading: a large request keeps the connection goroutine inside its write
	entered := w.Rec.Watch("wl.enter@client")
	w.Plan(5, &Plan{})
	bigDone := make(chan struct{})
	go func() {
		defer close(bigDone)
		bctx, bcancel := context.WithTimeout(context.Background(), 6*time.Second)
		defer bcancel()
		c.CallBigReq(bctx, 5, 16<<20)
	}()
	waitCh(entered, 2*time.Second)
	time.Sleep(100 * time.Millisecond)
	w.Rec.Emit("CallerCancel", "call", 3)
	cancel()
	time.Sleep(5 * time.Millisecond)
	w.Rec.OpenAll() // the executor goes on: the response announcing the channel is processed now
	time.Sleep(300 * time.Millisecond)
	w.MarkCause()
	pc.Stall(C2S, false) // the link flows again: whatever is queued gets written
	waitCh(bigDone, patience(5*time.Second))
	waitCh(d, patience(2*time.Second))
	// the handler waits for its cancellation (and reports if it never comes)
	dl := time.Now().Add(patience(5 * time.Second))
	for time.Now().Before(dl) {
		seen := false
		for _, e := range w.Rec.Events() {
			if (e["ev"] == "HandlerCtxDone" || e["ev"] == "CtxMissing") && e["call"] == 3 {
				seen = true
			}
		}
		if seen {
			break
		}
		time.Sleep(5 * time.Millisecond)
	}
	w.Quiesce(c, 1000, 2*time.Second)
	return nil
}

// trap.chanclose (WsRpc: ExLookup of a "cls" frame followed by MainCloseChans): the executor is closing a subscription's sink
// for the server's close notification when the connection drops and the main loop sweeps the channel handlers. The handler
// entry must be gone before the sink is touched, or the sweep closes the same sink a second time.
func scTrapChanClose(w *World, a Args, rng *rand.Rand) error {
	c, err := w.NewClient(ClientOpts{Name: "A", NoPing: true, BackoffMin: 2 * time.Millisecond, BackoffMax: 5 * time.Millisecond})
	if err != nil {
		return err
	}
	w.Plan(3, &Plan{NoClose: true, NoCloseMs: 4000})
	d := make(chan struct{})
	go func() {
		ch, out := c.Subscribe(context.Background(), 3, 2, "")
		if out == "ok" && ch != nil {
			w.Consume(3, ch, nil, d)
		} else {
			close(d)
		}
	}()
	// both values delivered, the stream is idle and open
	dl := time.Now().Add(2 * time.Second)
	for time.Now().Before(dl) {
		n := 0
		for _, e := range w.Rec.Events() {
			if e["ev"] == "ChanRecv" {
				n++
			}
		}
		if n >= 2 {
			break
		}
		time.Sleep(time.Millisecond)
	}
	w.Rec.Gate("sink.close")
	sweep := w.Rec.Watch("closechans.pre@client")
	w.Release(3) // the handler closes its channel: the close notification reaches the client's executor
	if w.Rec.WaitParked("sink.close", 2*time.Second) {
		w.Rec.Emit("WireFault", "conn", 1, "fault", "kill/fin", "dir", "both", "frame", 0)
		w.Proxy.Last().Kill("fin")
		waitCh(sweep, 2*time.Second) // the main loop is about to sweep the channel handlers
		time.Sleep(5 * time.Millisecond)
	}
	w.Rec.OpenAll()
	waitCh(d, patience(2*time.Second))
	dl = time.Now().Add(patience(3 * time.Second))
	for tok := 6; tok < 6+40*10 && time.Now().Before(dl); tok += 10 {
		if out := c.CallT("unary", tok, patience(2*time.Second)); out == "ok" || out == "pending" {
			break
		}
		time.Sleep(3 * time.Millisecond)
	}
	w.Quiesce(c, 1000, 2*time.Second)
	return nil
}

func waitCh(c <-chan struct{}, d time.Duration) bool {
	select {
	case <-c:
		return true
	case <-time.After(d):
		return false
	}
}

// trap.staledelete (WsRpc_c03.cfg, NoLostCall, 32 steps): the executor has looked up the response of a retry-tagged
// call when the connection drops; closeInFlight fails the call, the caller retries with the same id on the new
// connection, and only then the executor finishes the old response and deletes the in-flight entry - now the new one.
func scTrapStaleDelete(w *World, a Args, rng *rand.Rand) error {
	c, err := w.NewClient(ClientOpts{Name: "A", NoPing: true, BackoffMin: 2 * time.Millisecond, BackoffMax: 5 * time.Millisecond})
	if err != nil {
		return err
	}
	w.Plan(3, &Plan{Gated: true})
	done := make(chan struct{})
	go func() { defer close(done); c.Call(context.Background(), "retry", 3) }()
	if !w.WaitRunning(3, 2*time.Second) {
		return nil
	}
	w.Rec.Gate("resp.deliver.pre@client")
	cif := w.Rec.Watch("closeinflight@client")
	w.Rearm(3) // the second execution must wait too
	first := w.plan(3)
	_ = first
	// let the first execution answer: release the handler goroutine that is waiting on the old channel
	w.mu.Lock()
	w.mu.Unlock()
	releaseFirst(w, 3)
	if !w.Rec.WaitParked("resp.deliver.pre@client", 2*time.Second) { // executor: lookup done, delivery pending
		w.Rec.OpenAll()
		w.Quiesce(c, 1000, time.Second)
		return nil
	}
	w.Rec.Emit("WireFault", "conn", 1, "fault", "kill/fin", "dir", "both", "frame", 0)
	w.Proxy.Last().Kill("fin")
	waitCh(cif, 2*time.Second) // closeInFlight has failed the call: the caller will retry
	w.Rec.Gate("resp.deliver@client")
	w.Rec.Open("resp.deliver.pre@client")
	w.Rec.WaitParked("resp.deliver@client", 2*time.Second) // executor: delivered to the old request, delete pending
	// the retry reaches the server on the new connection
	dl := time.Now().Add(3 * time.Second)
	for time.Now().Before(dl) && w.Execs(3) < 2 {
		time.Sleep(time.Millisecond)
	}
	time.Sleep(2 * time.Millisecond)
	w.Rec.Open("resp.deliver@client") // the stale delete
	time.Sleep(5 * time.Millisecond)
	w.Release(3) // the second execution answers
	select {
	case <-done:
	case <-time.After(patience(2 * time.Second)):
	}
	w.Quiesce(c, 1000, 2*time.Second)
	return nil
}

// releaseFirst releases the execution that is already waiting (its release channel was captured before Rearm).
var firstRelease = map[*World]map[int]chan struct{}{}

func releaseFirst(w *World, tok int) {
	// WaitRunning guarantees the handler captured the original channel; Rearm replaced it in the plan, so keep a copy
	w.mu.Lock()
	ch := w.prevRelease[tok]
	w.mu.Unlock()
	if ch != nil {
		closeOnce(ch)
	}
}

// trap.closerace (WsRpc_c18race.cfg, ClosedAfterExit, 19 steps): the closer fires between the executor's in-flight
// lookup and its sink registration for a channel response; closeChans has already run when the channel is handed out.
func scTrapCloseRace(w *World, a Args, rng *rand.Rand) error {
	c, err := w.NewClient(ClientOpts{Name: "A", NoPing: true})
	if err != nil {
		return err
	}
	w.Plan(8, &Plan{NoClose: true})
	w.Rec.Gate("chanh.add.pre@client")
	var ch <-chan [2]int
	var out string
	subDone := make(chan struct{})
	go func() {
		defer close(subDone)
		ch, out = c.Subscribe(context.Background(), 8, 2, "")
	}()
	if !w.Rec.WaitParked("chanh.add.pre@client", 2*time.Second) {
		w.Rec.OpenAll()
		w.Quiesce(c, 1000, time.Second)
		return nil
	}
	w.Rec.Gate("closeinflight.pre@client")
	closed := make(chan struct{})
	go func() { w.CloseClient(c); close(closed) }()
	w.Rec.WaitParked("closeinflight.pre@client", 2*time.Second) // main loop: stop handled, closeChans done
	w.Rec.Open("chanh.add.pre@client")                          // executor registers the sink and delivers
	waitCh(subDone, 2*time.Second)
	consumed := make(chan struct{})
	if out == "ok" && ch != nil {
		w.Consume(8, ch, nil, consumed)
	}
	w.Rec.Open("closeinflight.pre@client")
	waitCh(closed, 3*time.Second)
	waitCh(consumed, patience(2*time.Second))
	w.Rec.Emit("Quiesce", "cli", "", "probe", "none", "waiting", intsOrEmpty(w.Waiting()), "lost", []int{}, "expectClosed", []int{8})
	return nil
}
