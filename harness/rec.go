package main

import (
	"fmt"
	"math/rand"
	"runtime"
	"strings"
	"sync"
	"time"

	jsonrpc "github.com/filecoin-project/go-jsonrpc"
)

// Recorder: one mutex-protected, totally ordered event log per scenario. API-level events (emitted by harness code)
// and hook-level events (emitted by the library's vpoint calls through the installed sink) share the order, so the
// log is a valid linearization: every post point executes inside the critical section it reports.

type Ev = map[string]interface{}

type Recorder struct {
	mu     sync.Mutex
	evs    []Ev
	hooks  bool // record hook-level events too
	seq    int
	rng    *rand.Rand
	rngMu  sync.Mutex
	delays map[string]float64       // hook point -> probability of a short delay (schedule perturbation)
	gates  map[string]chan struct{} // hook point (optionally "point@role") -> parked until the channel is closed
	parked map[string]chan struct{} // signalled when a goroutine parks at the gate
	watch  map[string]chan struct{} // hook point (optionally "point@role") -> signalled at every occurrence
	hookN  int
	fireAt int
	fire   func()
	maxD   time.Duration
}

// FireAt runs f (in its own goroutine) when the n-th hook point of the scenario is passed.
func (r *Recorder) FireAt(n int, f func()) {
	r.mu.Lock()
	r.fireAt, r.fire = n, f
	r.mu.Unlock()
}

// HookCount is the number of hook points passed so far.
func (r *Recorder) HookCount() int { r.mu.Lock(); defer r.mu.Unlock(); return r.hookN }

// Watch returns a channel that receives a token every time the hook point is passed.
func (r *Recorder) Watch(key string) <-chan struct{} {
	r.mu.Lock()
	defer r.mu.Unlock()
	if r.watch == nil {
		r.watch = map[string]chan struct{}{}
	}
	c := make(chan struct{}, 1024)
	r.watch[key] = c
	return c
}

func NewRecorder(seed int64, hooks bool) *Recorder {
	return &Recorder{hooks: hooks, rng: rand.New(rand.NewSource(seed)), delays: map[string]float64{}, gates: map[string]chan struct{}{},
		parked: map[string]chan struct{}{}, maxD: 2 * time.Millisecond}
}

// Emit records an API-level event.
func (r *Recorder) Emit(ev string, kv ...interface{}) {
	e := Ev{"ev": ev}
	for i := 0; i+1 < len(kv); i += 2 {
		e[kv[i].(string)] = kv[i+1]
	}
	r.mu.Lock()
	r.seq++
	r.evs = append(r.evs, e)
	r.mu.Unlock()
}

func (r *Recorder) Events() []Ev {
	r.mu.Lock()
	defer r.mu.Unlock()
	return append([]Ev{}, r.evs...)
}

// SetDelay makes every occurrence of a hook point sleep (0..maxD) with probability p. point "*" applies to all.
func (r *Recorder) SetDelay(point string, p float64) {
	r.mu.Lock()
	r.delays[point] = p
	r.mu.Unlock()
}

// Gate parks the next goroutines reaching the hook point until Open is called. key is "point" or "point@role".
func (r *Recorder) Gate(key string) {
	r.mu.Lock()
	r.gates[key] = make(chan struct{})
	r.parked[key] = make(chan struct{}, 64)
	r.mu.Unlock()
}

// WaitParked waits until some goroutine is parked at the gate.
func (r *Recorder) WaitParked(key string, d time.Duration) bool {
	r.mu.Lock()
	c := r.parked[key]
	r.mu.Unlock()
	if c == nil {
		return false
	}
	select {
	case <-c:
		return true
	case <-time.After(d):
		return false
	}
}

func (r *Recorder) Open(key string) {
	r.mu.Lock()
	if g, ok := r.gates[key]; ok {
		close(g)
		delete(r.gates, key)
	}
	r.mu.Unlock()
}

func (r *Recorder) OpenAll() {
	r.mu.Lock()
	for k, g := range r.gates {
		close(g)
		delete(r.gates, k)
	}
	r.mu.Unlock()
}

func hookVal(v interface{}) interface{} {
	switch x := v.(type) {
	case nil:
		return "nil"
	case string, bool, int, int64, uint64, float64:
		return x
	case error:
		return x.Error()
	default:
		return fmt.Sprint(x)
	}
}

func (r *Recorder) delaysExplicit(ev string) (float64, bool) {
	r.mu.Lock()
	defer r.mu.Unlock()
	p, ok := r.delays[ev]
	return p, ok
}

// Sink is installed with jsonrpc.VerifSetSink.
func (r *Recorder) Sink(conn int, role string, ev string, kv []interface{}) {
	// gates first (pre points park here), then perturbation, then the record
	r.mu.Lock()
	r.hookN++
	if r.fire != nil && r.hookN == r.fireAt {
		go r.fire()
		r.fire = nil
	}
	g := r.gates[ev+"@"+role]
	key := ev + "@" + role
	if g == nil {
		g = r.gates[ev]
		key = ev
	}
	var pk chan struct{}
	if g != nil {
		pk = r.parked[key]
	}
	p := r.delays[ev]
	if p == 0 {
		p = r.delays["*"]
	}
	for _, k := range []string{ev, ev + "@" + role} {
		if wc := r.watch[k]; wc != nil {
			select {
			case wc <- struct{}{}:
			default:
			}
		}
	}
	r.mu.Unlock()
	if g != nil {
		if pk != nil {
			select {
			case pk <- struct{}{}:
			default:
			}
		}
		<-g
	}
	_, explicit := r.delaysExplicit(ev)
	if p > 0 && (explicit || !strings.HasPrefix(ev, "wl.")) {
		r.rngMu.Lock()
		hit := r.rng.Float64() < p
		d := time.Duration(r.rng.Int63n(int64(r.maxD) + 1))
		r.rngMu.Unlock()
		if hit {
			if d < 50*time.Microsecond {
				runtime.Gosched()
			} else {
				time.Sleep(d)
			}
		}
	}
	if !r.hooks {
		return
	}
	e := Ev{"ev": "h:" + ev, "conn": conn, "role": role}
	if ev == "wl.enter" {
		// exact under the lock discipline: whoever is inside a write section must be holding writeLk
		e["locked"] = jsonrpc.VerifWriteLocked(conn)
	}
	for i := 0; i+1 < len(kv); i += 2 {
		k, _ := kv[i].(string)
		if k == "id" {
			e[k] = jsonrpc.VerifID(kv[i+1])
		} else if d, isDur := kv[i+1].(int64); isDur && (k == "d" || k == "min" || k == "max") {
			us := d / 1000 // nanoseconds -> microseconds (TLC integers are 32 bit)
			if us > 2000000000 {
				us = 2000000000
			}
			if d < 0 {
				us = -1
			}
			e[k] = us
		} else {
			e[k] = hookVal(kv[i+1])
		}
	}
	r.mu.Lock()
	r.seq++
	r.evs = append(r.evs, e)
	r.mu.Unlock()
}
