package main

import (
	"context"
	"math/rand"
	"sync"
	"time"
)

func init() {
	scenarios["c04.httpkill"] = scC04HTTPKill
	scenarios["c03.writefail"] = scC03WriteFail
	scenarios["c03.fault"] = scC03Fault
	scenarios["c05.outage"] = scC05Outage
	scenarios["c03.repeat"] = scC03Repeat
	scenarios["c03.cancelkill"] = scC03CancelKill
	scenarios["c03.queued"] = scC03Queued
}

// c03.queued: calls are handed to a connection goroutine that is stuck writing a large request to a peer that does not read;
// then the connection is reset. Whether or not the client reconnects, every one of those calls returns.
func scC03Queued(w *World, a Args, rng *rand.Rand) error {
	applyDelays(w, a)
	c, err := w.NewClient(ClientOpts{Name: "A", NoPing: true, NoReconnect: a.Bool("noreconnect"), BackoffMin: 2 * time.Millisecond, BackoffMax: 8 * time.Millisecond})
	if err != nil {
		return err
	}
	pc := w.Proxy.Last()
	pc.Stall(C2S, true)
	var wg sync.WaitGroup
	w.Plan(1, &Plan{})
	wg.Add(1)
	go func() {
		defer wg.Done()
		ctx, cancel := context.WithTimeout(context.Background(), 6*time.Second)
		defer cancel()
		c.CallBigReq(ctx, 1, 16<<20)
	}()
	time.Sleep(400 * time.Millisecond)
	for i := 2; i <= 1+a.Int("n", 12); i++ {
		w.Plan(i, &Plan{})
		wg.Add(1)
		go func(i int) {
			defer wg.Done()
			c.Call(context.Background(), []string{"unary", "retry", "notify"}[i%3], i)
		}(i)
	}
	time.Sleep(100 * time.Millisecond)
	w.Rec.Emit("WireFault", "conn", pc.ID, "fault", "kill/rst", "dir", "both", "frame", 0)
	pc.Kill("rst")
	done := make(chan struct{})
	go func() { wg.Wait(); close(done) }()
	waitCh(done, patience(4*time.Second))
	if a.Bool("noreconnect") {
		w.Quiesce(nil, 0, 2*time.Second)
		return nil
	}
	dl := time.Now().Add(patience(3 * time.Second))
	for tok := 1000; tok < 1400 && time.Now().Before(dl); tok += 10 {
		if out := c.CallT("unary", tok, patience(2*time.Second)); out == "ok" || out == "pending" {
			break
		}
		time.Sleep(3 * time.Millisecond)
	}
	w.Quiesce(c, 9000, 3*time.Second)
	return nil
}

// c03.repeat: the connection is lost several times in a row, each time with calls in flight; after every loss the client must
// heal and everything issued so far must have returned (state left behind by one loss must not poison the next).
func scC03Repeat(w *World, a Args, rng *rand.Rand) error {
	applyDelays(w, a)
	c, err := w.NewClient(ClientOpts{Name: "A", NoPing: true, BackoffMin: 2 * time.Millisecond, BackoffMax: 8 * time.Millisecond, Errors: a.Bool("errors")})
	if err != nil {
		return err
	}
	for round := 0; round < a.Int("losses", 3); round++ {
		base := 1 + round*100
		var wg sync.WaitGroup
		for k, kind := range []string{"unary", "retry", "unary"} {
			tok := base + k
			w.Plan(tok, &Plan{Gated: true})
			wg.Add(1)
			go func(kind string, tok int) {
				defer wg.Done()
				ctx, cancel := context.WithTimeout(context.Background(), 6*time.Second)
				defer cancel()
				c.Call(ctx, kind, tok)
			}(kind, tok)
			w.WaitRunning(tok, 300*time.Millisecond)
		}
		pc := w.Proxy.Last()
		style := []string{"fin", "rst"}[rng.Intn(2)]
		w.Rec.Emit("WireFault", "conn", pc.ID, "fault", "kill/"+style, "dir", "both", "frame", 0)
		pc.Kill(style)
		for k := 0; k < 3; k++ {
			w.Release(base + k)
		}
		done := make(chan struct{})
		go func() { wg.Wait(); close(done) }()
		waitCh(done, patience(3*time.Second))
		healed := false
		dl := time.Now().Add(patience(3 * time.Second))
		for tok := base + 10; tok < base+90 && time.Now().Before(dl); tok += 5 {
			if out := c.CallT("unary", tok, patience(2*time.Second)); out == "ok" {
				healed = true
				break
			}
			time.Sleep(3 * time.Millisecond)
		}
		if !healed {
			break
		}
	}
	if a.Bool("close") {
		w.CloseClient(c)
		w.Quiesce(nil, 0, 2*time.Second)
		return nil
	}
	w.Quiesce(c, 9000, 3*time.Second)
	return nil
}

// c03.cancelkill: many calls in flight, all their callers give up at the same moment the connection is lost (the callers are
// handing their cancel notifications to the connection goroutine while it sweeps the in-flight table).
func scC03CancelKill(w *World, a Args, rng *rand.Rand) error {
	applyDelays(w, a)
	n := a.Int("n", 60)
	c, err := w.NewClient(ClientOpts{Name: "A", NoPing: true, BackoffMin: 2 * time.Millisecond, BackoffMax: 8 * time.Millisecond})
	if err != nil {
		return err
	}
	ctx, cancel := context.WithCancel(context.Background())
	var wg sync.WaitGroup
	for i := 1; i <= n; i++ {
		w.Plan(i, &Plan{Gated: true})
		wg.Add(1)
		go func(i int) { defer wg.Done(); c.Call(ctx, "unary", i) }(i)
	}
	for i := 1; i <= n; i++ {
		w.WaitRunning(i, 500*time.Millisecond)
	}
	for i := 1; i <= n; i++ {
		w.Rec.Emit("CallerCancel", "call", i)
	}
	pc := w.Proxy.Last()
	w.Rec.Emit("WireFault", "conn", pc.ID, "fault", "kill/fin", "dir", "both", "frame", 0)
	go cancel()
	if d := a.Int("skewus", 0); d > 0 {
		time.Sleep(time.Duration(rng.Intn(d)) * time.Microsecond)
	}
	pc.Kill("fin")
	for i := 1; i <= n; i++ {
		w.Release(i)
	}
	done := make(chan struct{})
	go func() { wg.Wait(); close(done) }()
	waitCh(done, patience(4*time.Second))
	dl := time.Now().Add(patience(3 * time.Second))
	for tok := 1000; tok < 1400 && time.Now().Before(dl); tok += 10 {
		if out := c.CallT("unary", tok, patience(2*time.Second)); out == "ok" || out == "pending" {
			break
		}
		time.Sleep(3 * time.Millisecond)
	}
	w.Quiesce(c, 9000, 3*time.Second)
	return nil
}

// workload tokens: 1,2 plain unary (gated), 3 retry-tagged (gated), 4 notification, 5 call in the reconnect window,
// 6 call after recovery, 7 retry-tagged call in the window, 8 subscription (optional)

// c03.fault: a fixed workload with one connection fault at a chosen frame / byte position / direction, optionally a
// call issued inside the reconnect window (the redial is held by the dial gate) and a second fault on the new connection.
func scC03Fault(w *World, a Args, rng *rand.Rand) error {
	applyDelays(w, a)
	dir := C2S
	if a.Str("dir", "s2c") == "s2c" {
		dir = S2C
	}
	// the link falls silent and is noticed through keepalive only: "stall" = black hole between frames, "stallmid" = inside the
	// payload of a server-to-client frame, "halfopen" = only the server-to-client direction is swallowed
	style := a.Str("style", "fin")
	stall := style == "stall" || style == "stallmid" || style == "halfopen"
	stallTimeout := 120 * time.Millisecond
	c, err := w.NewClient(ClientOpts{Name: "A", NoPing: !stall, Ping: 15 * time.Millisecond, Timeout: stallTimeout, BackoffMin: 3 * time.Millisecond, BackoffMax: 15 * time.Millisecond,
		NoReconnect: a.Bool("noreconnect"), Errors: a.Bool("errors")})
	if err != nil {
		return err
	}
	pc := w.Proxy.Last()
	window := a.Bool("window")
	if window {
		w.SetDialGate(true)
	}
	if !stall {
		pc.AddRule(&Rule{Dir: dir, Frame: a.Int("frame", 1), Pos: a.Str("pos", "after"), Style: a.Str("style", "fin")})
	}
	if style == "stallmid" {
		pc.AddRule(&Rule{Dir: S2C, Frame: a.Int("frame", 1), Pos: "cut-payload", Style: "hole"})
	}
	if a.Bool("double") {
		n := 0
		w.Proxy.SetPolicy(func(p *PConn) {
			n++
			if n == 1 { // the first connection accepted after this point = the first reconnect
				p.AddRule(&Rule{Dir: S2C, Frame: 1, Pos: a.Str("pos2", "cut-payload"), Style: "fin"})
			}
		})
	}
	var wg sync.WaitGroup
	call := func(kind string, tok int, gated bool) {
		w.Plan(tok, &Plan{Gated: gated})
		wg.Add(1)
		go func() {
			defer wg.Done()
			ctx, cancel := context.WithTimeout(context.Background(), 8*time.Second)
			defer cancel()
			c.Call(ctx, kind, tok)
		}()
	}
	withSub := a.Bool("sub")
	var subDone chan struct{}
	// requests go out in a fixed order so that frame indices are meaningful
	call("unary", 1, true)
	w.WaitRunning(1, 300*time.Millisecond)
	call("unary", 2, true)
	w.WaitRunning(2, 300*time.Millisecond)
	call("retry", 3, true)
	w.WaitRunning(3, 300*time.Millisecond)
	call("notify", 4, false)
	call("retryfalse", 10, true) // tagged retry:"false": an untagged call as far as re-sending goes
	w.WaitRunning(10, 300*time.Millisecond)
	if withSub {
		w.Plan(8, &Plan{})
		subDone = make(chan struct{})
		wg.Add(1)
		go func() {
			defer wg.Done()
			ctx, cancel := context.WithTimeout(context.Background(), 8*time.Second)
			defer cancel()
			ch, out := c.Subscribe(ctx, 8, 3, "")
			if out == "ok" && ch != nil {
				w.Consume(8, ch, nil, subDone)
				select {
				case <-subDone:
				case <-ctx.Done():
				}
			} else {
				close(subDone)
			}
		}()
	}
	time.Sleep(2 * time.Millisecond)
	stopTraffic := make(chan struct{})
	if style == "halfopen" {
		pc.BlackholeDir(S2C)
	}
	if style == "stall" {
		pc.Blackhole()
	}
	if stall {
		if a.Bool("traffic") { // the application keeps sending (notifications) more often than the timeout
			go func() {
				for i := 0; ; i++ {
					select {
					case <-stopTraffic:
						return
					case <-time.After(stallTimeout / 5):
						go c.API.Notify(context.Background(), 9000+i)
					}
				}
			}()
		}
	}
	// responses come back in a seeded order
	order := []int{1, 2, 3}
	rng.Shuffle(3, func(i, j int) { order[i], order[j] = order[j], order[i] })
	for _, k := range order {
		w.Release(k)
		time.Sleep(time.Duration(rng.Intn(400)) * time.Microsecond)
	}
	w.Release(10)
	if window {
		// wait until the client sits at the dial gate (inside the reconnect window), then call
		dl := time.Now().Add(2 * time.Second)
		inWindow := false
		for time.Now().Before(dl) && !inWindow {
			for _, e := range w.Rec.Events() {
				if e["ev"] == "DialGate" {
					inWindow = true
				}
			}
			time.Sleep(500 * time.Microsecond)
		}
		if inWindow {
			call("unary", 5, false)
			call("retry", 7, false)
			// a caller whose context is already cancelled when it calls inside the window
			w.Plan(9, &Plan{})
			wg.Add(1)
			go func() {
				defer wg.Done()
				ctx, cancel := context.WithCancel(context.Background())
				w.Rec.Emit("CallerCancel", "call", 9)
				cancel()
				c.Call(ctx, "unary", 9)
			}()
			time.Sleep(3 * time.Millisecond)
		}
		w.SetDialGate(false)
	}
	close(stopTraffic)
	done := make(chan struct{})
	go func() { wg.Wait(); close(done) }()
	select {
	case <-done:
	case <-time.After(patience(2500 * time.Millisecond)):
	}
	// after recovery
	if !a.Bool("noreconnect") {
		w.Plan(6, &Plan{})
		// the client may still be redialling: a few attempts are legitimate, each is its own call token
		dl := time.Now().Add(patience(3 * time.Second))
		for tok := 6; tok < 6+40*10 && time.Now().Before(dl); tok += 10 {
			if out := c.CallT("unary", tok, patience(2*time.Second)); out == "ok" || out == "pending" {
				break
			}
			time.Sleep(5 * time.Millisecond)
		}
	}
	select {
	case <-done:
	case <-time.After(patience(500 * time.Millisecond)):
	}
	if a.Bool("noreconnect") {
		w.Quiesce(nil, 0, 3*time.Second)
	} else {
		w.Quiesce(c, 1000, 3*time.Second)
	}
	return nil
}

// c05.outage: the connection is lost, the server stays unreachable for k dial attempts, then comes back.
func scC05Outage(w *World, a Args, rng *rand.Rand) error {
	applyDelays(w, a)
	k := a.Int("faileddials", 2)
	noRe := a.Bool("noreconnect")
	keepalive := a.Bool("keepalive") // millisecond-scale ping / timeout instead of none
	timeout := 120 * time.Millisecond
	retryKind := "retry"
	if a.Bool("nc") {
		retryKind = "retrync" // a retry-tagged method whose client signature has no context
	}
	c, err := w.NewClient(ClientOpts{Name: "A", NoPing: !keepalive, Ping: 15 * time.Millisecond, Timeout: timeout, BackoffMin: time.Duration(a.Int("minus", 2000)) * time.Microsecond,
		BackoffMax: time.Duration(a.Int("maxus", 10000)) * time.Microsecond, NoReconnect: noRe, Errors: a.Bool("errors")})
	if err != nil {
		return err
	}
	var wg sync.WaitGroup
	call := func(kind string, tok int, gated bool) {
		w.Plan(tok, &Plan{Gated: gated})
		wg.Add(1)
		go func() {
			defer wg.Done()
			ctx, cancel := context.WithTimeout(context.Background(), 8*time.Second)
			defer cancel()
			c.Call(ctx, kind, tok)
		}()
	}
	call("unary", 1, true) // in flight when the link drops
	call(retryKind, 3, true)
	call("retryfalse", 2, true) // tagged retry:"false": in flight when the link drops, not to be sent again
	w.WaitRunning(2, 300*time.Millisecond)
	w.WaitRunning(1, 300*time.Millisecond)
	w.WaitRunning(3, 300*time.Millisecond)
	w.Rec.Emit("PhaseEnd", "phase", "healthy")
	w.Proxy.SetDown(true)
	if a.Str("style", "fin") == "close1000" {
		w.Proxy.Last().InjectClose(1000) // the server says goodbye with a normal-closure close frame
	} else {
		w.Rec.Emit("WireFault", "conn", 1, "fault", "kill/"+a.Str("style", "fin"), "dir", "both", "frame", 0) // cause before effect in the log
		w.Proxy.Last().Kill(a.Str("style", "fin"))
	}
	w.Release(1)
	w.Release(2)
	w.Release(3)
	// wait for k failed dials, issuing calls during the outage
	dl := time.Now().Add(5 * time.Second)
	issued := false
	for time.Now().Before(dl) {
		failed := 0
		for _, e := range w.Rec.Events() {
			if e["ev"] == "DialEnd" && e["ok"] == false {
				failed++
			}
		}
		if failed >= 1 && !issued {
			issued = true
			call("unary", 5, false)
			call(retryKind, 7, false)
		}
		if failed >= k || noRe {
			break
		}
		time.Sleep(300 * time.Microsecond)
	}
	if a.Bool("second") {
		n := 0
		w.Proxy.SetPolicy(func(p *PConn) {
			n++
			if n == 1 {
				p.AddRule(&Rule{Dir: S2C, Frame: 1, Pos: "after", Style: "fin"})
			}
		})
	}
	w.Proxy.SetDown(false)
	done := make(chan struct{})
	go func() { wg.Wait(); close(done) }()
	select {
	case <-done:
	case <-time.After(patience(4 * time.Second)):
	}
	if !noRe {
		healed := false
		dl := time.Now().Add(patience(3 * time.Second))
		for tok := 6; tok < 6+40*10 && time.Now().Before(dl); tok += 10 {
			if out := c.CallT("unary", tok, patience(2*time.Second)); out == "ok" || out == "pending" {
				healed = out == "ok"
				break
			}
			time.Sleep(3 * time.Millisecond)
		}
		if healed && a.Bool("healedphase") {
			// the healed link is as good as the first one: a call lasting several timeouts, then an idle gap, then a call
			w.Rec.Emit("PhaseStart", "phase", "healthy")
			w.Plan(8, &Plan{Gated: true})
			d8 := make(chan struct{})
			go func() { c.Call(context.Background(), "unary", 8); close(d8) }()
			time.Sleep(3 * timeout)
			w.Release(8)
			waitCh(d8, patience(2*time.Second))
			time.Sleep(2 * timeout)
			c.CallT("unary", 9, 2*time.Second)
			w.Rec.Emit("PhaseEnd", "phase", "healthy")
		}
		w.Quiesce(c, 1000, 3*time.Second)
	} else {
		time.Sleep(30 * time.Millisecond) // a no-reconnect client must stay silent
		w.Quiesce(nil, 0, 3*time.Second)
	}
	return nil
}

// c03.writefail: the client's socket becomes unwritable (local write errors) while its read side still blocks; calls
// issued in that state must end with the connection error once the loss is noticed (retry-tagged ones ride it out).
func scC03WriteFail(w *World, a Args, rng *rand.Rand) error {
	applyDelays(w, a)
	c, err := w.NewClient(ClientOpts{Name: "A", NoPing: true, BackoffMin: 3 * time.Millisecond, BackoffMax: 15 * time.Millisecond, Errors: a.Bool("errors")})
	if err != nil {
		return err
	}
	var wg sync.WaitGroup
	call := func(kind string, tok int, gated bool) {
		w.Plan(tok, &Plan{Gated: gated})
		wg.Add(1)
		go func() {
			defer wg.Done()
			c.Call(context.Background(), kind, tok)
		}()
	}
	call("unary", 1, true) // in flight before the socket goes bad
	w.WaitRunning(1, 300*time.Millisecond)
	sock := c.Sock()
	if sock == nil {
		return nil
	}
	w.Rec.Emit("WireFault", "conn", 1, "fault", "local-write-error", "dir", "c2s", "frame", 0)
	sock.FailWrites(true)
	call("unary", 5, false)
	call("retry", 7, false)
	call("notify", 4, false)
	time.Sleep(time.Duration(a.Int("holdms", 20)) * time.Millisecond)
	w.Release(1)
	// now the connection dies for good and the read side notices
	w.Rec.Emit("WireFault", "conn", 1, "fault", "kill/"+a.Str("style", "fin"), "dir", "both", "frame", 0)
	w.Proxy.Last().Kill(a.Str("style", "fin"))
	done := make(chan struct{})
	go func() { wg.Wait(); close(done) }()
	select {
	case <-done:
	case <-time.After(patience(3 * time.Second)):
	}
	dl := time.Now().Add(patience(3 * time.Second))
	for tok := 6; tok < 6+40*10 && time.Now().Before(dl); tok += 10 {
		if out := c.CallT("unary", tok, patience(2*time.Second)); out == "ok" || out == "pending" {
			break
		}
		time.Sleep(5 * time.Millisecond)
	}
	w.Quiesce(c, 1000, 3*time.Second)
	return nil
}

// c04.httpkill: an HTTP client on a reused keep-alive connection; the connection dies after the server has read and is
// executing the request, before the first response byte. The library (and the HTTP stack under it) must not replay it.
func scC04HTTPKill(w *World, a Args, rng *rand.Rand) error {
	tp, err := NewTCPProxy(w.TS.Listener.Addr().String())
	if err != nil {
		return err
	}
	defer tp.Close()
	c, err := w.NewClient(ClientOpts{Name: "A", HTTP: true, Via: tp.Addr()})
	if err != nil {
		return err
	}
	// warm up: the next request reuses this connection
	for i := 0; i < a.Int("warm", 1); i++ {
		c.Call(context.Background(), "unary", 20+i)
	}
	kind := a.Str("kind", "unary")
	w.Plan(1, &Plan{Gated: true})
	done := make(chan struct{})
	go func() {
		defer close(done)
		c.Call(context.Background(), kind, 1)
	}()
	if w.WaitRunning(1, 2*time.Second) {
		w.Rec.Emit("WireFault", "conn", 1, "fault", "http-kill-before-response", "dir", "s2c", "frame", 0)
		tp.KillAll()
		time.Sleep(5 * time.Millisecond)
	}
	w.Release(1)
	select {
	case <-done:
	case <-time.After(patience(4 * time.Second)):
	}
	time.Sleep(20 * time.Millisecond) // a replayed request would reach its handler by now
	c.Call(context.Background(), "unary", 30)
	w.Quiesce(nil, 0, 2*time.Second)
	return nil
}
