SPECIFICATION TSpec
CONSTANT NameSample = {}
INVARIANT Report
CHECK_DEADLOCK FALSE
