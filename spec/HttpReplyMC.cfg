SPECIFICATION Spec
CONSTANT ElemSample <- Sample
CONSTANT MaxBatch = 3
CONSTANT NElems = 5
INVARIANT StepwiseAgrees
INVARIANT AlwaysWellFormed
INVARIANT ModelSatisfiesC09
CHECK_DEADLOCK FALSE
