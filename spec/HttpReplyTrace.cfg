SPECIFICATION TSpec
CONSTANT ElemSample = {}
CONSTANT MaxBatch = 3
INVARIANT Report
CHECK_DEADLOCK FALSE
