SPECIFICATION Spec
CONSTANTS
  Ids = {1, 2, 3}
  NVals = 2
  MaxCancel = 1
  StrictProducer = TRUE
  Variant = "ok"
  InitKind <- MCKindUSN
INVARIANTS TypeOK CancelHasCause CancelExact RespOnce RespKindOK StreamOrdered StreamComplete ReturnedClean
CHECK_DEADLOCK FALSE
