------------------------------ MODULE ErrCodec ------------------------------
(***************************************************************************)
(* Error transport: handler.createError (server) and JSONRPCError.val       *)
(* (client), errors.go registries, and the result/error exclusivity of      *)
(* handler.handle + rpcFunc.processResponse.                                *)
(*                                                                         *)
(* A row: the class of the error the handler returns, the relation between  *)
(* the server's and the client's error tables, the method shape, whether    *)
(* the handler also returned a non-zero value, and the transport.           *)
(***************************************************************************)
EXTENDS Naturals, Sequences, FiniteSets, TLC

Classes == {"nil", "plain",
            "regval", "regptr",            \* registered plain types, value / pointer form
            "marsh", "marshval",           \* marshalable (MarshalJSON/UnmarshalJSON), pointer / value form
            "codec",                       \* RPCErrorCodec: supplies its own code, message and data
            "codecfailto",                 \* ToJSONRPCError fails on the server
            "codecfailfrom",               \* FromJSONRPCError fails on the client
            "marshfailun",                 \* UnmarshalJSON fails on the client
            "marshfailm",                  \* MarshalJSON fails on the server
            "codecvalok",                  \* value-form type whose pointer implements the codec (server sees a plain error)
            "codecvalfailfrom",            \* same, FromJSONRPCError fails on the client
            "wrapreg",                     \* a registered type wrapped with %w: the dynamic type of the returned error is not registered
            "xmarshvalfailun"}             \* server: pointer-form marshalable; client binds a value-form type to the same code whose UnmarshalJSON fails
Rels    == {"both", "clientonly", "serveronly", "disjoint", "none"}
Shapes  == {"err", "valerr"}
Transports == {"http", "ws", "custom"}
Rows == {r \in [cls : Classes, rel : Rels, shape : Shapes, hval : {"zero", "nonzero"}, tr : Transports] :
           r.shape = "err" => r.hval = "zero"}

IsCodec(c) == c \in {"codec", "codecfailto", "codecfailfrom"}
\* err.(marshalable) on the server: only pointer forms carry both MarshalJSON and UnmarshalJSON in their method set;
\* a value-form type with a pointer-receiver UnmarshalJSON ("marshval") is not a marshalable value in Go's type system
\* and therefore travels like a plain registered type (type only, no content)
IsMarsh(c) == c \in {"marsh", "marshfailun", "marshfailm", "xmarshvalfailun"}
Form(c)    == IF c \in {"regval", "marshval", "codecvalok", "codecvalfailfrom", "xmarshvalfailun"} THEN "val" ELSE "ptr"
Registrable(c) == c \notin {"nil", "plain", "wrapreg"}      \* (the harness registers wrapreg's inner type as rel says; it must not matter)

\* codes: 1 = default, "S" = the code the server table gives the type, "C" = the code the client table uses,
\* "K" = the code a codec error supplies itself (the harness registers codec types under K on the client)
ServerHas(r) == Registrable(r.cls) /\ r.rel \in {"both", "serveronly", "disjoint"}
ClientHas(r) == Registrable(r.cls) /\ r.rel \in {"both", "clientonly", "disjoint"}

(* ---------------- server: createError ---------------- *)
ByTypeCode(r) == IF ServerHas(r) THEN "S" ELSE "1"
WireError(r) ==
  IF IsCodec(r.cls) /\ r.cls # "codecfailto"
  THEN [code |-> "K", hasMeta |-> FALSE, codecData |-> TRUE]          \* out = &o  (ToJSONRPCError)
  ELSE [code |-> ByTypeCode(r),
        hasMeta |-> IsMarsh(r.cls) /\ r.cls # "marshfailm",           \* out.Meta = MarshalJSON()
        codecData |-> FALSE]

(* ---------------- client: JSONRPCError.val ---------------- *)
\* which code does the client's table list this type under?
ClientCodeFor(r) == IF ~ClientHas(r) THEN "none"
                    ELSE IF IsCodec(r.cls) THEN "K"
                    ELSE IF r.rel = "disjoint" THEN "C" ELSE "S"
Outcome(r) ==
  IF r.cls = "nil" THEN [nonnil |-> FALSE, zero |-> r.shape = "err" \/ r.hval = "zero", etype |-> "nil", form |-> "na", content |-> "na", msgcode |-> "na"]
  ELSE LET w == WireError(r)
           hit == ClientCodeFor(r) # "none" /\ ClientCodeFor(r) = w.code      \* errors.byCode[e.Code]
       IN IF ~hit
          THEN [nonnil |-> TRUE, zero |-> TRUE, etype |-> "generic", form |-> "na", content |-> "na", msgcode |-> "kept"]
          ELSE IF r.cls \in {"codecfailfrom", "codecvalfailfrom"} \/ (w.hasMeta /\ r.cls \in {"marshfailun", "xmarshvalfailun"})
          THEN [nonnil |-> TRUE, zero |-> TRUE, etype |-> "generic", form |-> "na", content |-> "na", msgcode |-> "kept"]
          ELSE [nonnil |-> TRUE, zero |-> TRUE, etype |-> "registered", form |-> Form(r.cls),
                content |-> IF w.codecData \/ w.hasMeta THEN "eq" ELSE "na", msgcode |-> "na"]

(* ---------------- the property ---------------- *)
SameCodeBothSides(r) == \/ (r.rel = "both" /\ Registrable(r.cls))
                        \/ (IsCodec(r.cls) /\ r.cls # "codecfailto" /\ ClientHas(r))   \* codec errors supply the code themselves
ConversionFails(r)   == r.cls \in {"codecfailfrom", "marshfailun", "codecvalfailfrom", "xmarshvalfailun"}
P_C11(r, o) ==
  /\ o.etype # "panic"
  /\ (r.cls = "nil") <=> ~o.nonnil
  /\ o.nonnil => o.zero
  /\ r.cls = "nil" => (o.zero <=> (r.shape = "err" \/ r.hval = "zero"))      \* the handler's value arrives when there is no error
  /\ r.cls \in {"plain", "wrapreg"} => o.etype = "generic" /\ o.msgcode = "kept"
  /\ (SameCodeBothSides(r) /\ ~ConversionFails(r) /\ r.cls \notin {"codecfailto", "marshfailm"})
       => o.etype = "registered" /\ o.form = Form(r.cls) /\ (IsCodec(r.cls) \/ IsMarsh(r.cls) => o.content = "eq")
  /\ (SameCodeBothSides(r) /\ ConversionFails(r)) => o.etype = "generic"
  /\ (r.cls # "nil" /\ ~ClientHas(r)) => o.etype = "generic" /\ o.msgcode = "kept"

(* ---------------- state machine ---------------- *)
CONSTANT RowSample
VARIABLES row, pc, wire, out
vars == <<row, pc, wire, out>>
NoWire == [none |-> TRUE]
Init == row \in RowSample /\ pc = "handler" /\ wire = NoWire /\ out = NoWire
HandlerReturns == /\ pc = "handler"
                  /\ IF row.cls = "nil" THEN pc' = "client" /\ wire' = [ok |-> TRUE]
                     ELSE pc' = "create" /\ wire' = wire
                  /\ UNCHANGED <<row, out>>
CreateError == /\ pc = "create" /\ wire' = WireError(row) /\ pc' = "client" /\ UNCHANGED <<row, out>>
ClientVal   == /\ pc = "client" /\ out' = Outcome(row) /\ pc' = "done" /\ UNCHANGED <<row, wire>>
Next == HandlerReturns \/ CreateError \/ ClientVal
Spec == Init /\ [][Next]_vars
ModelSatisfiesC11 == pc = "done" => P_C11(row, out)
\* non-vacuity: every outcome kind occurs
Expected(r) == Outcome(r)
=============================================================================
