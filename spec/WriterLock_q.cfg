SPECIFICATION Spec
CONSTANTS
  Writers = {"req", "resp", "chanval", "chanclose", "ping", "swap"}
  MaxFrags = 2
  LockFree = {}
INVARIANT MutualExclusion
INVARIANT Contiguous
CHECK_DEADLOCK FALSE
