--------------------------- MODULE SignatureTrace ---------------------------
(* Conformance + verdicts for C01: one line per (Signature row, concrete value tuple) executed through a real *)
(* client / server pair.                                                                                      *)
EXTENDS Signature, Json
Trace == ndJsonDeserialize("trace.ndjson")
VARIABLES l, viol, drift
tvars == <<row, pc, wire, hargs, hret, reply, cret, l, viol, drift>>
IsPair(e) == "kind" \in DOMAIN e.row          \* rows about several calls at once (pair, burst): verdict only, no stepwise model
IsBurst(e) == IsPair(e) /\ e.row.kind = "burst"
IsPlain(e) == IsPair(e) /\ e.row.kind = "plain"
RowOf(e) == IF IsPair(e) THEN [n |-> 0, ctx |-> FALSE, raw |-> FALSE, ret |-> "val", outcome |-> "value", tr |-> e.row.tr, fmt |-> e.row.fmt] ELSE
            [n |-> e.row.n, ctx |-> e.row.ctx, raw |-> e.row.raw, ret |-> e.row.ret, outcome |-> e.row.outcome, tr |-> e.row.tr, fmt |-> e.row.fmt]
ObsOf(e) == IF IsPlain(e) THEN [ok |-> e.obs.ok] ELSE
            IF IsBurst(e) THEN [ran |-> e.obs.ran, own |-> e.obs.own] ELSE
            IF IsPair(e) THEN [aran |-> e.obs.aran, bran |-> e.obs.bran, ares |-> e.obs.ares, bres |-> e.obs.bres] ELSE
            [ran |-> e.obs.ran, argsok |-> e.obs.argsok, nargs |-> e.obs.nargs, err |-> e.obs.err, res |-> e.obs.res]
Load(j) == row' = RowOf(Trace[j]) /\ pc' = "client" /\ wire' = None /\ hargs' = <<>> /\ hret' = None /\ reply' = None /\ cret' = None
TInit == /\ l = 1 /\ viol = <<>> /\ drift = <<>>
         /\ IF Len(Trace) >= 1 THEN row = RowOf(Trace[1]) /\ pc = "client" ELSE row = [n |-> 0] /\ pc = "end"
         /\ wire = None /\ hargs = <<>> /\ hret = None /\ reply = None /\ cret = None
TStep == /\ pc \notin {"done", "end"} /\ Next /\ UNCHANGED <<l, viol, drift>>
TCheck == /\ pc = "done"
          /\ LET o == ObsOf(Trace[l]) IN
             /\ viol'  = IF (IF IsPlain(Trace[l]) THEN P_C01_Plain(Trace[l].row, o) ELSE IF IsBurst(Trace[l]) THEN P_C01_Burst(Trace[l].row, o) ELSE IF IsPair(Trace[l]) THEN P_C01_Pair(Trace[l].row, o) ELSE P_C01(row, o)) THEN viol ELSE Append(viol, l)
             /\ drift' = IF IsPair(Trace[l]) \/ o = ModelObs THEN drift ELSE Append(drift, l)
          /\ l' = l + 1
          /\ IF l + 1 <= Len(Trace) THEN Load(l + 1) ELSE pc' = "end" /\ UNCHANGED <<row, wire, hargs, hret, reply, cret>>
TNext == TStep \/ TCheck
TSpec == TInit /\ [][TNext]_tvars
Report == pc = "end" => JsonSerialize("result.json", [n |-> Len(Trace), consumed |-> l - 1, viol |-> viol, drift |-> drift])
=============================================================================
