SPECIFICATION Spec
CONSTANTS
  Unary = {}
  Subs = {s1}
  Notifs = {}
  Retry = {}
  NVals = 1
  MaxGen = 0
  MaxFaults = 0
  AllowStop = TRUE
  AllowCancel = FALSE
  AllowHalf = FALSE
  Reconnect = TRUE
  MaxAttempts = 1
  FixExitOrder = FALSE
  FixReadErr = TRUE
  FixStaleDelete = FALSE
INVARIANT OwnResult
INVARIANT OwnValuesPrefix
INVARIANT ClosedAfterExit
INVARIANT NoWaiterAfterExit
CHECK_DEADLOCK FALSE
