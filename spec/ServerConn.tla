----------------------------- MODULE ServerConn -----------------------------
(***************************************************************************)
(* The server-side wsConn of one accepted connection from the moment the    *)
(* connection ends: handleWsConn's exit path, the handlers in progress and   *)
(* every goroutine the connection owns (server.go handleWS, websocket.go,   *)
(* handler.go withLazyWriter).                                              *)
(*                                                                         *)
(* Goroutines: main loop, frame executor, reader (nextMessage/readFrame),   *)
(* ping ticker, channel forwarder, one per handler, one lazy-writer helper  *)
(* per response being written.                                              *)
(* End causes: peer close frame ("graceful"), FIN, RST, cancellation of the *)
(* server-side request context ("srvcancel").                               *)
(* LazyFix / ReaderFix switch the two repairs (f0e5542, 0025104) off to     *)
(* show the leaks (non-vacuity).                                            *)
(***************************************************************************)
EXTENDS Naturals, Sequences, FiniteSets, TLC
CONSTANTS UnaryH, NotifH, StreamH,   \* handlers in progress when the connection ends, by kind
          Causes, LazyFix, ReaderFix
Handlers == UnaryH \cup NotifH \cup StreamH
Kind == [h \in Handlers |-> IF h \in UnaryH THEN "unary" ELSE IF h \in NotifH THEN "notif" ELSE "stream"]

VARIABLES cause, main, exec, reader, ping, fwd, hctx, hst, lazy, connCtx, exiting, sockClosed, writerOK
vars == <<cause, main, exec, reader, ping, fwd, hctx, hst, lazy, connCtx, exiting, sockClosed, writerOK>>

Init == /\ cause \in Causes
        /\ main = "select" /\ exec = "run" /\ ping = "run" /\ fwd = "run"
        /\ reader \in {"blocked-in-read", "has-message"}       \* a message may just have been read when the end comes
        /\ hctx = [h \in Handlers |-> "live"] /\ hst = [h \in Handlers |-> "running"] /\ lazy = [h \in Handlers |-> "none"]
        /\ connCtx = "live" /\ exiting = FALSE /\ sockClosed = FALSE
        /\ writerOK = TRUE      \* NextWriter still succeeds (false once a close frame has been sent / the socket is closed)

\* the end of the connection as the main loop sees it
MainSeesEnd == /\ main = "select"
               /\ \/ (cause \in {"graceful", "fin", "rst"} /\ reader = "gone")      \* incoming closed (no reconnect on the server)
                  \/ cause = "srvcancel"                                            \* case <-ctx.Done()
               /\ main' = "exit-stopexec"
               /\ UNCHANGED <<cause, exec, reader, ping, fwd, hctx, hst, lazy, connCtx, exiting, sockClosed, writerOK>>
\* the reader notices the end of the stream: sets incomingErr, close(incoming)  (a graceful close: the close handler has answered with a close frame)
ReaderSeesEnd == /\ reader = "blocked-in-read" /\ cause \in {"graceful", "fin", "rst"}
                 /\ reader' = "gone" /\ writerOK' = (IF cause = "graceful" THEN FALSE ELSE writerOK)
                 /\ UNCHANGED <<cause, main, exec, ping, fwd, hctx, hst, lazy, connCtx, exiting, sockClosed>>
\* the reader hands a message to the main loop: select on exiting (repair) - otherwise it blocks for ever once the loop is gone
ReaderHandOff == /\ reader = "has-message"
                 /\ IF main = "select" THEN reader' = "blocked-in-read"
                    ELSE IF ReaderFix /\ exiting THEN reader' = "gone"
                    ELSE IF ~ReaderFix /\ main = "returned" THEN reader' = "leaked"
                    ELSE reader' = reader
                 /\ reader' # reader
                 /\ UNCHANGED <<cause, main, exec, ping, fwd, hctx, hst, lazy, connCtx, exiting, sockClosed, writerOK>>
\* once the socket is closed by handleWS a reader blocked in read returns with an error
ReaderSockClosed == /\ reader = "blocked-in-read" /\ sockClosed /\ reader' = "gone"
                    /\ UNCHANGED <<cause, main, exec, ping, fwd, hctx, hst, lazy, connCtx, exiting, sockClosed, writerOK>>
\* deferred steps, LIFO: stop executor (repair 9e0df5e), stopPings, closeChans, closeInFlight (cancels every handler), close(exiting), cancel()
ExitStopExec   == /\ main = "exit-stopexec" /\ exec' = "gone" /\ connCtx' = "cancelled" /\ main' = "exit-pings"
                  /\ hctx' = [h \in Handlers |-> "cancelled"]          \* handler contexts derive from the connection context
                  /\ UNCHANGED <<cause, reader, ping, fwd, hst, lazy, exiting, sockClosed, writerOK>>
ExitPings      == /\ main = "exit-pings" /\ ping' = "gone" /\ main' = "exit-inflight"
                  /\ UNCHANGED <<cause, exec, reader, fwd, hctx, hst, lazy, connCtx, exiting, sockClosed, writerOK>>
ExitInFlight   == /\ main = "exit-inflight" /\ main' = "exit-exiting"
                  /\ UNCHANGED <<cause, exec, reader, ping, fwd, hctx, hst, lazy, connCtx, exiting, sockClosed, writerOK>>
ExitExiting    == /\ main = "exit-exiting" /\ exiting' = TRUE /\ main' = "returned"
                  /\ UNCHANGED <<cause, exec, reader, ping, fwd, hctx, hst, lazy, connCtx, sockClosed, writerOK>>
\* handleWS: c.Close() after handleWsConn returned
CloseSocket    == /\ main = "returned" /\ ~sockClosed /\ sockClosed' = TRUE /\ writerOK' = FALSE
                  /\ UNCHANGED <<cause, main, exec, reader, ping, fwd, hctx, hst, lazy, connCtx, exiting>>
FwdExit        == /\ fwd = "run" /\ exiting /\ fwd' = "gone"
                  /\ UNCHANGED <<cause, main, exec, reader, ping, hctx, hst, lazy, connCtx, exiting, sockClosed, writerOK>>
\* a handler returns only after its context was cancelled (the harness handlers wait for that); then it responds through the lazy writer
HandlerReturns(h) == /\ hst[h] = "running" /\ hctx[h] = "cancelled"
                     /\ hst' = [hst EXCEPT ![h] = IF Kind[h] = "unary" THEN "responding" ELSE "done"]
                     /\ UNCHANGED <<cause, main, exec, reader, ping, fwd, hctx, lazy, connCtx, exiting, sockClosed, writerOK>>
\* lazyWriter.Write: go withWriterFunc(...); <-acquired.  nextWriter returns without the callback when NextWriter fails
LazyAcquire(h) == /\ hst[h] = "responding" /\ lazy[h] = "none"
                  /\ lazy' = [lazy EXCEPT ![h] = IF writerOK THEN "acquired" ELSE IF LazyFix THEN "failed" ELSE "stuck"]
                  /\ UNCHANGED <<cause, main, exec, reader, ping, fwd, hctx, hst, connCtx, exiting, sockClosed, writerOK>>
HandlerDone(h) == /\ hst[h] = "responding" /\ lazy[h] \in {"acquired", "failed"}
                  /\ hst' = [hst EXCEPT ![h] = "done"] /\ lazy' = [lazy EXCEPT ![h] = "released"]
                  /\ UNCHANGED <<cause, main, exec, reader, ping, fwd, hctx, connCtx, exiting, sockClosed, writerOK>>
Next == MainSeesEnd \/ ReaderSeesEnd \/ ReaderHandOff \/ ReaderSockClosed \/ ExitStopExec \/ ExitPings \/ ExitInFlight \/ ExitExiting
        \/ CloseSocket \/ FwdExit \/ \E h \in Handlers : HandlerReturns(h) \/ LazyAcquire(h) \/ HandlerDone(h)
Spec == Init /\ [][Next]_vars /\ WF_vars(Next)

\* C15 (1): once the connection handler has returned every handler context is cancelled
HandlersCancelled == main = "returned" => \A h \in Handlers : hctx[h] = "cancelled"
\* C15 (2): in a final state (nothing can move) with all harness handlers back, the connection owns no goroutine
Final == ~ENABLED Next
NothingRetained == Final => /\ main = "returned" /\ exec = "gone" /\ ping = "gone" /\ fwd = "gone" /\ reader = "gone"
                            /\ \A h \in Handlers : hst[h] = "done" /\ lazy[h] \in {"none", "released"}
Terminates == <>(main = "returned" /\ \A h \in Handlers : hst[h] = "done")
=============================================================================
