SPECIFICATION Spec
CONSTANT Recover = FALSE
INVARIANT Confined
CHECK_DEADLOCK FALSE
