SPECIFICATION Spec
CONSTANTS
  Replayable = TRUE
  RetryTagged = FALSE
  MaxAttempts = 3
INVARIANTS AtMostOnce AnsweredExecuted
CHECK_DEADLOCK FALSE
