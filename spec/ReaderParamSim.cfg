SPECIFICATION Spec
CONSTANTS
  Calls = {c1, c2}
  MaxChunks = 2
  MaxExtra = 2
  OnceClose = TRUE
  StickyEOF = TRUE
CHECK_DEADLOCK FALSE
