-------------------------- MODULE ReaderParamTrace --------------------------
(***************************************************************************)
(* Binding for C20: the events recorded from the real httpio pair must be   *)
(* a behaviour of ReaderParam.  Logged events consume a trace line and take *)
(* the corresponding ReaderParam action; the steps the harness cannot see   *)
(* (the decoder reaching the table, the rendez-vous, the linearization      *)
(* point inside Read) are silent.  The trace is accepted if some            *)
(* interleaving of silent steps consumes every line.                        *)
(***************************************************************************)
EXTENDS ReaderParam, Json, SequencesExt

Trace == ndJsonDeserialize("trace.ndjson")
VARIABLES l
tvars == <<len, table, up, dec, h, pos, got, eof, extra, badAfterEof, waitClosed, sticky, bodyClosed, closed, last, l>>

CallOf(k) == CHOOSE c \in Calls : ToString(c) = "c" \o ToString(k)
Ev   == Trace[l]
Is(e) == l <= Len(Trace) /\ Ev.ev = e
C    == CallOf(Ev.c)
Adv  == l' = l + 1
Keep == UNCHANGED vars

ResetTo(e) ==
  /\ len' = [c \in Calls |-> LET k == CHOOSE k \in 1..Cardinality(Calls) : CallOf(k) = c IN
                             IF k <= Len(e.chunks) THEN e.chunks[k] ELSE 0]
  /\ table' = {} /\ up' = [c \in Calls |-> "none"] /\ dec' = [c \in Calls |-> "none"]
  /\ h' = [c \in Calls |-> "idle"] /\ pos' = [c \in Calls |-> 0] /\ got' = [c \in Calls |-> <<>>]
  /\ eof' = [c \in Calls |-> 0] /\ extra' = [c \in Calls |-> 0] /\ badAfterEof' = [c \in Calls |-> FALSE]
  /\ waitClosed' = [c \in Calls |-> 0] /\ sticky' = [c \in Calls |-> "none"]
  /\ bodyClosed' = [c \in Calls |-> FALSE] /\ closed' = [c \in Calls |-> FALSE] /\ last' = [c \in Calls |-> "none"]

TInit == /\ len = [c \in Calls |-> 0]
         /\ table = {} /\ up = [c \in Calls |-> "none"] /\ dec = [c \in Calls |-> "none"]
         /\ h = [c \in Calls |-> "idle"] /\ pos = [c \in Calls |-> 0] /\ got = [c \in Calls |-> <<>>]
         /\ eof = [c \in Calls |-> 0] /\ extra = [c \in Calls |-> 0] /\ badAfterEof = [c \in Calls |-> FALSE]
         /\ waitClosed = [c \in Calls |-> 0] /\ sticky = [c \in Calls |-> "none"]
         /\ bodyClosed = [c \in Calls |-> FALSE] /\ closed = [c \in Calls |-> FALSE] /\ last = [c \in Calls |-> "none"]
         /\ l = 1
ResClass(e) == IF e.n > 0 THEN (IF e.cls = "eof" THEN "dataeof" ELSE "data") ELSE IF e.cls = "eof" THEN "eof" ELSE "err"

Logged ==
  \/ Is("reset")      /\ ResetTo(Ev) /\ Adv
  \/ Is("callstart")  /\ Keep /\ Adv
  \/ Is("uparrive")   /\ UpArrive(C) /\ Adv
  \/ Is("hstart")     /\ HStart(C) /\ Adv
  \/ Is("readbegin")  /\ ReadBegin(C) /\ Adv
  \/ Is("readend")    /\ h[C] = "run" /\ last[C] = ResClass(Ev) /\ last' = [last EXCEPT ![C] = "none"]
                      /\ UNCHANGED <<len, table, up, dec, h, pos, got, eof, extra, badAfterEof, waitClosed, sticky, bodyClosed, closed>> /\ Adv
  \/ Is("closebegin") /\ HClose(C) /\ Adv
  \/ Is("closeend")   /\ Keep /\ Adv
  \/ Is("hreturn")    /\ HReturn(C) /\ Adv
  \/ Is("upreturn")   /\ UpReturn(C) /\ Adv
  \/ Is("callend")    /\ Keep /\ Adv
  \/ Is("quiesce")    /\ Keep /\ Adv
Silent == /\ l <= Len(Trace)
          /\ \E c \in Calls : DecArrive(c) \/ HandOff(c) \/ (ReadEffect(c) /\ last[c] = "none")
          /\ UNCHANGED l
TNext == Logged \/ Silent
TSpec == TInit /\ [][TNext]_tvars

\* design invariants keep being evaluated on the real execution
TraceInvs == NoDoubleClose /\ OwnBytesPrefix
HighWater == TLCSet(1, IF l > TLCGet(1) THEN l ELSE TLCGet(1))
Report == /\ HighWater
          /\ l = Len(Trace) + 1 => JsonSerialize("binding.json", [n |-> Len(Trace), consumed |-> l - 1])
ASSUME TLCSet(1, 0)
Post == PrintT(<<"HIGHWATER", TLCGet(1)>>)
=============================================================================
