SPECIFICATION Spec
CONSTANTS
  Clients = {a, b, c}
  MaxCalls = 4
  PerConnection = FALSE
INVARIANT OwnClient
CHECK_DEADLOCK FALSE
