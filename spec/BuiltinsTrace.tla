--------------------------- MODULE BuiltinsTrace ---------------------------
(* Conformance + verdicts for C10: every trace line is one Builtins row executed against a real endpoint      *)
(* hosted in a child process (server under attack by a raw WebSocket client, or client under attack by a     *)
(* fake server), or one size row against a real HTTP server.                                                 *)
EXTENDS Builtins, Json
Trace == ndJsonDeserialize("trace.ndjson")
VARIABLES l, viol, drift
tvars == <<row, pc, k, acc, l, viol, drift>>

RowOf(e) == IF e.row.kind = "size" THEN [kind |-> "size", limit |-> e.row.limit, rel |-> e.row.rel, pad |-> e.row.pad]
            ELSE [kind |-> "frames", role |-> e.row.role, frames |-> e.row.frames]
ObsOf(e) == IF e.row.kind = "size" THEN [accepted |-> e.obs.accepted, execs |-> e.obs.execs, errreply |-> e.obs.errreply]
            ELSE [alive |-> e.obs.alive, probeSame |-> e.obs.probeSame, probeFresh |-> e.obs.probeFresh,
                  cancelled |-> e.obs.cancelled, delivered |-> e.obs.delivered, closed |-> e.obs.closed, completed |-> e.obs.completed]
Load(j) == row' = RowOf(Trace[j]) /\ pc' = "start" /\ k' = 0 /\ acc' = Quiet
TInit == /\ l = 1 /\ viol = <<>> /\ drift = <<>>
         /\ IF Len(Trace) >= 1 THEN row = RowOf(Trace[1]) /\ pc = "start" ELSE row = [kind |-> "none"] /\ pc = "end"
         /\ k = 0 /\ acc = Quiet
TStep == /\ pc \notin {"done", "end"} /\ Next /\ UNCHANGED <<l, viol, drift>>
Conforms(o) == IF row.kind = "size" THEN [accepted |-> o.accepted, execs |-> o.execs] = SizeOutcome(row)
               ELSE LET m == AsObs(acc) IN
                    /\ o.alive = m.alive /\ o.probeFresh = m.probeFresh
                    /\ (m.probeSame => o.probeSame)
                    /\ (~acc.connends => o.cancelled = m.cancelled /\ o.delivered = m.delivered /\ o.closed = m.closed /\ o.completed = m.completed)
TCheck == /\ pc = "done"
          /\ LET o == ObsOf(Trace[l]) IN
             /\ viol'  = IF P_C10(row, o) THEN viol ELSE Append(viol, l)
             /\ drift' = IF Conforms(o) THEN drift ELSE Append(drift, l)
          /\ l' = l + 1
          /\ IF l + 1 <= Len(Trace) THEN Load(l + 1) ELSE pc' = "end" /\ UNCHANGED <<row, k, acc>>
TNext == TStep \/ TCheck
TSpec == TInit /\ [][TNext]_tvars
Report == pc = "end" => JsonSerialize("result.json", [n |-> Len(Trace), consumed |-> l - 1, viol |-> viol, drift |-> drift])
=============================================================================
