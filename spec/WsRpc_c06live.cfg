SPECIFICATION FairSpec
CONSTANTS
  Unary = {u1}
  Subs = {}
  Notifs = {}
  Retry = {}
  NVals = 0
  MaxGen = 0
  MaxFaults = 0
  AllowStop = FALSE
  AllowCancel = TRUE
  AllowHalf = FALSE
  Reconnect = TRUE
  MaxAttempts = 2
  FixExitOrder = TRUE
  FixReadErr = TRUE
  FixStaleDelete = TRUE
INVARIANT CtxDoneOnlyIfCancelled
PROPERTY CancelReachesHandler
CHECK_DEADLOCK FALSE
