SPECIFICATION Spec
CONSTANTS
  Unary = {u1, u2, u3}
  Subs = {}
  Notifs = {}
  Retry = {}
  NVals = 0
  MaxGen = 0
  MaxFaults = 0
  AllowStop = FALSE
  AllowCancel = TRUE
  AllowHalf = FALSE
  Reconnect = TRUE
  MaxAttempts = 1
  FixExitOrder = TRUE
  FixReadErr = TRUE
  FixStaleDelete = TRUE








CHECK_DEADLOCK FALSE
