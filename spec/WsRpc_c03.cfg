SPECIFICATION Spec
CONSTANTS
  Unary = {u1, u2}
  Subs = {s1}
  Notifs = {}
  Retry = {r1}
  NVals = 1
  MaxGen = 1
  MaxFaults = 1
  AllowStop = FALSE
  AllowCancel = FALSE
  Reconnect = TRUE
  MaxAttempts = 2
  FixExitOrder = FALSE
  FixReadErr = TRUE
  FixStaleDelete = FALSE
INVARIANT OwnResult
INVARIANT MailboxOwn
INVARIANT AtMostOnce
INVARIANT AnsweredExecuted
INVARIANT OwnValuesPrefix
INVARIANT BufferedOwn
INVARIANT NoLostCall
INVARIANT NoStaleOpenSink
CHECK_DEADLOCK FALSE
