SPECIFICATION TSpec
CONSTANT RowSample = {}
INVARIANT Report
CHECK_DEADLOCK FALSE
