----------------------------- MODULE Dispatch -----------------------------
(***************************************************************************)
(* Method registration and dispatch: handler.register, handler.handle       *)
(* (lookup, alias fallback, arity and per-parameter decoding gate),         *)
(* method_formatter.go and the client-side naming of client.makeRpcFunc.    *)
(*                                                                         *)
(* Row kinds                                                                *)
(*   "name"   server formatter x registration order x alias table x request *)
(*   "client" client/server naming agreement (shared formatter or tag)      *)
(*   "arity"  number of positional params and per-parameter decodability    *)
(***************************************************************************)
EXTENDS Naturals, Sequences, FiniteSets, TLC

NS      == {"A", "B", ""}
Methods == {"Foo", "Bar"}
Fmts    == {"ns.orig", "ns.lower", "orig", "lower", "custom"}

Lower(m) == IF m = "Foo" THEN "foo" ELSE IF m = "Bar" THEN "bar" ELSE m

\* method_formatter.go NewMethodNameFormatter(includeNamespace, case); "custom" is the harness-supplied ns + "_" + method
F(f, ns, m) ==
  CASE f = "ns.orig"  -> ns \o "." \o m
    [] f = "ns.lower" -> ns \o "." \o Lower(m)
    [] f = "orig"     -> m
    [] f = "lower"    -> Lower(m)
    [] f = "custom"   -> ns \o "_" \o m

Cand == {F(f, ns, m) : f \in Fmts, ns \in NS, m \in Methods} \cup {"Nope", ""}

Orders == {s \in UNION {[1..n -> NS] : n \in 0..3} : \A i, j \in DOMAIN s : i # j => s[i] # s[j]}
Aliases == {[has |-> FALSE, a |-> "", t |-> ""]} \cup [has : {TRUE}, a : Cand, t : Cand]

NameRows   == [kind : {"name"}, fmt : Fmts, regs : Orders, alias : Aliases, req : Cand]
ClientRows == [kind : {"client"}, tagged : {FALSE}, fmtS : Fmts, fmtC : {"same"}, ns : NS, m : Methods]
                \cup [kind : {"client"}, tagged : {TRUE}, fmtS : Fmts, fmtC : Fmts, ns : NS, m : Methods]
\* params shape: "array" (n elements), "absent", "null", "object"; bad = positions (1..k) whose JSON value does
\* not decode into the declared type (as decided by encoding/json, supplied by the harness)
ArityRows  == {r \in [kind : {"arity"}, k : 0..3, shape : {"array", "absent", "null", "object"}, n : 0..4, bad : SUBSET (1..3), ctx : BOOLEAN] :
                 /\ r.n <= r.k + 1
                 /\ r.shape # "array" => r.n = 0 /\ r.bad = {}
                 /\ r.bad \subseteq 1..r.n
                 /\ r.n # r.k => r.bad = {}}

None == <<"none", "none">>

(* ---------------- register: s.methods[formatter(ns, name)] = handler, in registration order ------------- *)
RECURSIVE Registered(_, _, _)
Registered(f, regs, i) ==   \* the methods table after registering regs[1..i]: function name -> <<ns, m>>
  IF i = 0 THEN [x \in {} |-> None]
  ELSE LET prev == Registered(f, regs, i - 1)
           new  == {F(f, regs[i], m) : m \in Methods}
       IN [x \in DOMAIN prev \cup new |->
             IF x \in new THEN <<regs[i], CHOOSE m \in Methods : F(f, regs[i], m) = x>> ELSE prev[x]]
Table(r) == Registered(r.fmt, r.regs, Len(r.regs))

\* handler.handle lookup: direct name, else one-hop alias, else method not found
NameOutcome(r) ==
  LET T == Table(r) IN
  IF r.req \in DOMAIN T THEN [ran |-> T[r.req], code |-> 0]
  ELSE IF r.alias.has /\ r.alias.a = r.req /\ r.alias.t \in DOMAIN T THEN [ran |-> T[r.alias.t], code |-> 0]
  ELSE [ran |-> None, code |-> 0 - 32601]

\* client side: name := formatter(namespace, field) unless the field carries an rpc_method tag
ClientName(r) == IF r.tagged THEN F(r.fmtS, r.ns, r.m) ELSE F(r.fmtS, r.ns, r.m)   \* shared formatter: fmtC = fmtS
ClientOutcome(r) == [ran |-> <<r.ns, r.m>>, code |-> 0]

\* arity / decode gate of handler.handle
ArityOutcome(r) ==
  IF r.shape = "object" THEN [ran |-> 0, res |-> "err"]                 \* params do not decode as a list
  ELSE IF r.n # r.k THEN [ran |-> 0, res |-> "arity"]                  \* -32602
  ELSE IF r.bad # {} THEN [ran |-> 0, res |-> "err"]
  ELSE [ran |-> 1, res |-> "ok"]

Expected(r) == CASE r.kind = "name" -> NameOutcome(r) [] r.kind = "client" -> ClientOutcome(r) [] r.kind = "arity" -> ArityOutcome(r)

(* ---------------- the property ---------------- *)
Direct(f, regs, name) == {<<regs[i], m>> : i \in DOMAIN regs, m \in Methods} \cap {p \in NS \X Methods : F(f, p[1], p[2]) = name}
P_C12_Name(r, o) ==
  LET D  == Direct(r.fmt, r.regs, r.req)
      DT == IF r.alias.has /\ r.alias.a = r.req THEN Direct(r.fmt, r.regs, r.alias.t) ELSE {}
  IN IF D # {} THEN o.ran \in D /\ o.code = 0                        \* direct name wins, never another namespace's method
     ELSE IF DT # {} THEN o.ran \in DT /\ o.code = 0                 \* alias only as a fallback
     ELSE o.ran = None /\ o.code = 0 - 32601                          \* method not found, nothing ran
P_C12_Client(r, o) == o.ran = <<r.ns, r.m>> /\ o.code = 0
P_C12_Arity(r, o) ==
  LET good == r.shape # "object" /\ r.n = r.k /\ r.bad = {} IN
  /\ good => o.ran = 1 /\ o.res = "ok"
  /\ ~good => o.ran = 0 /\ o.res \in {"err", "arity"}
  /\ (r.shape # "object" /\ r.n # r.k) => o.res = "arity"
P_C12(r, o) == CASE r.kind = "name" -> P_C12_Name(r, o) [] r.kind = "client" -> P_C12_Client(r, o) [] r.kind = "arity" -> P_C12_Arity(r, o)

(* ---------------- state machine (one Go statement group per action) ---------------- *)
CONSTANTS NameSample   \* set of name rows explored by this configuration (ALL or a TLC-sampled subset)
VARIABLES row, pc, tbl, i, out
vars == <<row, pc, tbl, i, out>>
NoOut == [none |-> TRUE]

Init == /\ row \in NameSample \cup ClientRows \cup ArityRows
        /\ pc = "start" /\ tbl = [x \in {} |-> None] /\ i = 0 /\ out = NoOut

\* s.methods[name] = methodHandler{...} for every method of the next registered receiver
Register == /\ pc = "start" /\ row.kind = "name" /\ i < Len(row.regs)
            /\ tbl' = Registered(row.fmt, row.regs, i + 1) /\ i' = i + 1
            /\ UNCHANGED <<row, pc, out>>
RegDone  == /\ pc = "start" /\ row.kind = "name" /\ i = Len(row.regs)
            /\ pc' = "lookup" /\ UNCHANGED <<row, tbl, i, out>>
LookupDirect == /\ pc = "lookup"
                /\ IF row.req \in DOMAIN tbl
                   THEN out' = [ran |-> tbl[row.req], code |-> 0] /\ pc' = "done"
                   ELSE out' = out /\ pc' = "alias"
                /\ UNCHANGED <<row, tbl, i>>
LookupAlias  == /\ pc = "alias"
                /\ IF row.alias.has /\ row.alias.a = row.req /\ row.alias.t \in DOMAIN tbl
                   THEN out' = [ran |-> tbl[row.alias.t], code |-> 0]
                   ELSE out' = [ran |-> None, code |-> 0 - 32601]
                /\ pc' = "done" /\ UNCHANGED <<row, tbl, i>>
ClientCall == /\ pc = "start" /\ row.kind = "client"
              /\ out' = ClientOutcome(row) /\ pc' = "done" /\ UNCHANGED <<row, tbl, i>>
DecodeList == /\ pc = "start" /\ row.kind = "arity"
              /\ IF row.shape = "object" THEN out' = [ran |-> 0, res |-> "err"] /\ pc' = "done"
                 ELSE out' = out /\ pc' = "count"
              /\ UNCHANGED <<row, tbl, i>>
CountParams == /\ pc = "count"
               /\ IF row.n # row.k THEN out' = [ran |-> 0, res |-> "arity"] /\ pc' = "done"
                  ELSE out' = out /\ pc' = "decode" /\ i' = 0
               /\ UNCHANGED <<row, tbl>> /\ (row.n # row.k => i' = i)
DecodeParam == /\ pc = "decode" /\ i < row.k
               /\ IF (i + 1) \in row.bad THEN out' = [ran |-> 0, res |-> "err"] /\ pc' = "done" /\ i' = i
                  ELSE out' = out /\ pc' = pc /\ i' = i + 1
               /\ UNCHANGED <<row, tbl>>
CallHandler == /\ pc = "decode" /\ i = row.k
               /\ out' = [ran |-> 1, res |-> "ok"] /\ pc' = "done" /\ UNCHANGED <<row, tbl, i>>

Next == Register \/ RegDone \/ LookupDirect \/ LookupAlias \/ ClientCall \/ DecodeList \/ CountParams \/ DecodeParam \/ CallHandler
Spec == Init /\ [][Next]_vars

StepwiseAgrees    == pc = "done" => out = Expected(row)
ModelSatisfiesC12 == pc = "done" => P_C12(row, out)
=============================================================================
