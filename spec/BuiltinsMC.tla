---------------------------- MODULE BuiltinsMC ----------------------------
(* Model-checking entry point for Builtins: all single-frame rows for both roles, all size rows, and a       *)
(* TLC-sampled set (RandomSubset, -seed) of two-frame sequences.                                              *)
EXTENDS Builtins, Json, SequencesExt, Randomization
CONSTANTS NPairs
Singles == [kind : {"frames"}, role : Roles, frames : [1..1 -> Frames]]
PairFrames == RandomSubset(NPairs, Frames)
Pairs == [kind : {"frames"}, role : Roles, frames : [1..2 -> PairFrames]]
Sample == Singles \cup Pairs \cup SizeRows
WithExp(r) == [row |-> r, exp |-> Expected(r)]
ASSUME ndJsonSerialize("rows.ndjson", SetToSeq({WithExp(r) : r \in Sample}))
=============================================================================
