--------------------------- MODULE ErrCodecTrace ---------------------------
(* Conformance + verdicts for C11: one line per ErrCodec row executed through a real client / server pair. *)
EXTENDS ErrCodec, Json
Trace == ndJsonDeserialize("trace.ndjson")
VARIABLES l, viol, drift
tvars == <<row, pc, wire, out, l, viol, drift>>
RowOf(e) == [cls |-> e.row.cls, rel |-> e.row.rel, shape |-> e.row.shape, hval |-> e.row.hval, tr |-> e.row.tr]
ObsOf(e) == [nonnil |-> e.obs.nonnil, zero |-> e.obs.zero, etype |-> e.obs.etype, form |-> e.obs.form, content |-> e.obs.content, msgcode |-> e.obs.msgcode]
Load(j) == row' = RowOf(Trace[j]) /\ pc' = "handler" /\ wire' = NoWire /\ out' = NoWire
TInit == /\ l = 1 /\ viol = <<>> /\ drift = <<>>
         /\ IF Len(Trace) >= 1 THEN row = RowOf(Trace[1]) /\ pc = "handler" ELSE row = [cls |-> "none"] /\ pc = "end"
         /\ wire = NoWire /\ out = NoWire
TStep == /\ pc \notin {"done", "end"} /\ Next /\ UNCHANGED <<l, viol, drift>>
TCheck == /\ pc = "done"
          /\ LET o == ObsOf(Trace[l]) IN
             /\ viol'  = IF P_C11(row, o) THEN viol ELSE Append(viol, l)
             /\ drift' = IF o = out THEN drift ELSE Append(drift, l)
          /\ l' = l + 1
          /\ IF l + 1 <= Len(Trace) THEN Load(l + 1) ELSE pc' = "end" /\ UNCHANGED <<row, wire, out>>
TNext == TStep \/ TCheck
TSpec == TInit /\ [][TNext]_tvars
Report == pc = "end" => JsonSerialize("result.json", [n |-> Len(Trace), consumed |-> l - 1, viol |-> viol, drift |-> drift])
=============================================================================
