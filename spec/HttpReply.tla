----------------------------- MODULE HttpReply -----------------------------
(***************************************************************************)
(* handler.handleReader / handler.handle / rpcError (server.go) for one     *)
(* HTTP request body, and the same per-request logic for WebSocket frames.  *)
(* Algorithm-shaped: the output is the token sequence the Go code writes    *)
(* ("[", ",", "]" and one token per response object), so a separator after  *)
(* an element that produced no output is a reachable model state if the     *)
(* algorithm has that flaw.                                                  *)
(*                                                                         *)
(* Request elements are abstract: an id class and a request class.          *)
(*   id class : absent null int frac str bool obj arr                       *)
(*   req class: see ReqClasses; the harness registers a fixed handler set   *)
(*              (T.Void0, T.Val1, T.Err0, T.Both0, T.Panic0, alias Al.Val)  *)
(***************************************************************************)
EXTENDS Naturals, Integers, Sequences, FiniteSets, TLC

IdClasses  == {"absent", "null", "int", "frac", "str", "bool", "obj", "arr"}
ValidIds   == {"int", "frac", "str"}           \* string or number: usable as an id
NotifIds   == {"absent", "null"}               \* no id: notification
BadIds     == {"bool", "obj", "arr"}           \* invalid id type

\* classes that reach the handler
RunOk      == {"void", "voidnop", "voidnull", "val", "alias"}   \* handler runs, result
RunErr     == {"herr", "both"}                                  \* handler runs, returns an error
RunPanic   == {"panic"}
Rejected   == {"unknown", "nomethod", "arity", "arity0", "badtype", "objparams"}
ReqClasses == RunOk \cup RunErr \cup RunPanic \cup Rejected
Elems      == [id : IdClasses, req : ReqClasses]

RejectCode(c) == CASE c \in {"unknown", "nomethod"} -> 0 - 32601
                   [] c \in {"arity", "arity0"}     -> 0 - 32602
                   [] c \in {"badtype", "objparams"} -> 0 - 32700

Bodies == {"empty", "ws", "garbage", "nonobject", "nullbody", "emptybatch", "batchbad", "single", "batch"}

(* ------------------------------------------------------------------ *)
(* handle(): what one decoded request contributes                       *)
(*   returns [out : sequence of response tokens (0 or 1), exec : 0/1]   *)
(* A response token: [src, id ("echo"/"null"), res, code]               *)
(* ------------------------------------------------------------------ *)
Tok(src, idk, res, code) == [src |-> src, id |-> idk, res |-> res, code |-> code]
Sep(x) == [sep |-> x]

HandleElem(src, e, transport) ==
  LET notif == e.id \in NotifIds
      idk   == IF notif THEN "null" ELSE "echo"
      \* over WebSocket a notification's writer is io.Discard: nothing ever reaches the wire
      errOut(code) == IF notif /\ transport = "ws" THEN <<>> ELSE <<Tok(src, idk, "error", code)>>
  IN
  IF e.req \in Rejected THEN [out |-> errOut(RejectCode(e.req)), exec |-> 0]
  ELSE IF e.req \in RunPanic THEN [out |-> errOut(0), exec |-> 1]          \* rpcError(..., 0, "fatal error calling")
  ELSE IF notif THEN [out |-> <<>>, exec |-> 1]                            \* if req.ID == nil { return }
  ELSE IF e.req \in RunErr THEN [out |-> <<Tok(src, "echo", "error", 1)>>, exec |-> 1]
  ELSE [out |-> <<Tok(src, "echo", "result", 0)>>, exec |-> 1]

\* one batch / single element including the id normalisation done by handleReader (HTTP) or frameExecutor (ws)
ProcessElem(src, e, transport) ==
  IF transport = "ws" /\ e.req = "nomethod"
  THEN [out |-> <<>>, exec |-> 0]       \* a frame without a method is a response (to nothing): logged and dropped
  ELSE
  IF e.id \in BadIds
  THEN IF transport = "ws" THEN [out |-> <<>>, exec |-> 0]                 \* frame dropped, "todo send invalid request"
       ELSE [out |-> <<Tok(src, "null", "error", 0 - 32700)>>, exec |-> 0]
  ELSE HandleElem(src, e, transport)

(* ------------------------------------------------------------------ *)
(* Rows                                                                 *)
(* ------------------------------------------------------------------ *)
CONSTANTS ElemSample, MaxBatch
SeqsOf(S, n) == UNION {[1..k -> S] : k \in 1..n}
HttpRows == [kind : {"http"}, body : {"empty", "ws", "garbage", "nonobject", "nullbody", "emptybatch"}, elems : {<<>>}]
            \cup [kind : {"http"}, body : {"single"}, elems : [1..1 -> Elems]]
            \cup [kind : {"http"}, body : {"batch"}, elems : SeqsOf(ElemSample, MaxBatch)]
            \cup [kind : {"http"}, body : {"batchbad"}, elems : {<<>>} \cup SeqsOf(ElemSample, 1)]
WsRows   == [kind : {"ws"}, body : {"frames"}, elems : SeqsOf(ElemSample, MaxBatch) \cup [1..1 -> Elems]]
Rows     == HttpRows \cup WsRows

(* ------------------------------------------------------------------ *)
(* Closed-form expected outcome                                         *)
(* ------------------------------------------------------------------ *)
RECURSIVE Concat(_, _, _)
Concat(f, i, n) == IF i > n THEN <<>> ELSE f[i] \o Concat(f, i + 1, n)

ElemOuts(r, tr) == [i \in 1..Len(r.elems) |-> ProcessElem(i, r.elems[i], tr)]
Execs(r, tr)    == [i \in 1..Len(r.elems) |-> ElemOuts(r, tr)[i].exec]
Entries(r, tr)  == Concat([i \in 1..Len(r.elems) |-> ElemOuts(r, tr)[i].out], 1, Len(r.elems))

NoExec(r) == [i \in 1..Len(r.elems) |-> 0]
OneError(code, status, r) == [shape |-> "object", status |-> status, entries |-> <<Tok(0, "null", "error", code)>>, execs |-> NoExec(r)]

Expected(r) ==
  IF r.kind = "ws"
  THEN [shape |-> "frames", status |-> 0, entries |-> Entries(r, "ws"), execs |-> Execs(r, "ws")]
  ELSE CASE r.body \in {"empty", "ws"}  -> OneError(0 - 32600, 400, r)
         [] r.body = "garbage"          -> OneError(0 - 32700, 500, r)
         [] r.body = "nonobject"        -> OneError(0 - 32700, 500, r)
         [] r.body = "nullbody"         -> OneError(0 - 32601, 500, r)    \* `null` decodes to a zero request: method '' not found
         [] r.body = "emptybatch"       -> OneError(0 - 32600, 400, r)
         [] r.body = "batchbad"         -> OneError(0 - 32700, 500, r)    \* the whole array fails to decode, nothing runs
         [] r.body = "single"           ->
              LET e == Entries(r, "http") IN
              [shape |-> IF e = <<>> THEN "empty" ELSE "object",
               status |-> IF e # <<>> /\ e[1].res = "error" /\ ~(r.elems[1].req \in RunErr /\ r.elems[1].id \in ValidIds) THEN 500 ELSE 200,
               entries |-> e, execs |-> Execs(r, "http")]
         [] r.body = "batch"            ->
              LET e == Entries(r, "http") IN
              [shape |-> IF e = <<>> THEN "empty" ELSE "array", status |-> 200, entries |-> e, execs |-> Execs(r, "http")]

(* ------------------------------------------------------------------ *)
(* The property over (row, observed)                                    *)
(*   o.shape    "empty" | "object" | "array" | "frames" | "malformed"   *)
(*   o.entries  sequence of [id, res, code, v2, vok] in reply order;    *)
(*              id is the index of the request whose id (type and       *)
(*              value) the entry echoes, 0 for null, -1 for anything    *)
(*              else; res in {"result","error","both","neither"}        *)
(*   o.execs    handler executions per request element                  *)
(* ------------------------------------------------------------------ *)
\* id-bearing requests; over WebSocket a frame without a method member is not a request frame at all
Bearing(r)  == SelectSeq([i \in 1..Len(r.elems) |-> i],
                         LAMBDA i : r.elems[i].id \in ValidIds /\ ~(r.kind = "ws" /\ r.elems[i].req = "nomethod"))
NonNull(o)  == SelectSeq(o.entries, LAMBDA x : x.id # 0)
Nulls(o)    == SelectSeq(o.entries, LAMBDA x : x.id = 0)
\* elements that may legitimately yield a null-id error entry over HTTP: undeterminable id, or a notification
\* that failed (tolerated deviation: reply to a failing notification)
MayNull(r)  == {i \in 1..Len(r.elems) : \/ r.elems[i].id \in BadIds
                                         \/ (r.elems[i].id \in NotifIds /\ r.elems[i].req \in Rejected \cup RunPanic)}

EntryOK(e, x) ==      \* entry x answers id-bearing element e
  /\ x.v2 /\ x.res \in {"result", "error"}
  /\ e.req \in RunOk => x.res = "result" /\ x.vok
  /\ e.req \in RunErr \cup RunPanic => x.res = "error"
  /\ e.req \in Rejected => x.res = "error"
  /\ e.req \in {"unknown", "nomethod"} => x.code = 0 - 32601
  /\ e.req \in {"arity", "arity0"} => x.code = 0 - 32602

ExecsOK(r, o) == \A i \in 1..Len(r.elems) :
                    LET e == r.elems[i] IN
                    IF e.id \in BadIds \/ e.req \in Rejected THEN o.execs[i] = 0 ELSE o.execs[i] = 1

AlignedOK(r, o) ==
  LET b == Bearing(r)  nn == NonNull(o) IN
  /\ Len(nn) = Len(b)
  /\ \A j \in 1..Len(b) : nn[j].id = b[j] /\ EntryOK(r.elems[b[j]], nn[j])
  /\ \A j \in 1..Len(Nulls(o)) : Nulls(o)[j].res = "error" /\ Nulls(o)[j].v2

\* WebSocket: responses may arrive in any order; each valid-id frame is answered exactly once, nothing else is
AlignedSet(r, o) ==
  LET b == Bearing(r) IN
  /\ Len(o.entries) = Len(b)
  /\ \A j \in 1..Len(b) : Cardinality({k \in 1..Len(o.entries) : o.entries[k].id = b[j]}) = 1
  /\ \A k \in 1..Len(o.entries) : o.entries[k].id > 0 /\ o.entries[k].id \in {b[j] : j \in 1..Len(b)}
                                   /\ EntryOK(r.elems[o.entries[k].id], o.entries[k])
  /\ ExecsOK(r, o)

P_C09(r, o) ==
  IF r.kind = "ws"
  THEN \* every frame with a valid id gets exactly one response frame, everything else none
       /\ o.shape = "frames" /\ AlignedSet(r, o)
  ELSE
  CASE r.body \in {"empty", "ws", "emptybatch"} ->
         o.shape = "object" /\ Len(o.entries) = 1 /\ o.entries[1].id = 0 /\ o.entries[1].res = "error"
         /\ o.entries[1].code = 0 - 32600 /\ o.entries[1].v2
    [] r.body \in {"garbage", "batchbad"} ->
         o.shape = "object" /\ Len(o.entries) = 1 /\ o.entries[1].id = 0 /\ o.entries[1].res = "error"
         /\ o.entries[1].code = 0 - 32700 /\ o.entries[1].v2 /\ \A i \in DOMAIN o.execs : o.execs[i] = 0
    [] r.body \in {"nonobject", "nullbody"} ->     \* valid JSON that is no request object: some error, id null
         o.shape = "object" /\ Len(o.entries) = 1 /\ o.entries[1].id = 0 /\ o.entries[1].res = "error" /\ o.entries[1].v2
    [] r.body = "single" ->
         /\ o.shape \in {"empty", "object"}
         /\ o.shape = "empty" => r.elems[1].id \in NotifIds /\ o.entries = <<>>
         /\ o.shape = "object" => Len(o.entries) = 1
         /\ r.elems[1].id \in ValidIds => o.shape = "object"
         /\ AlignedOK(r, o) /\ Len(Nulls(o)) <= Cardinality(MayNull(r)) /\ ExecsOK(r, o)
    [] r.body = "batch" ->
         /\ o.shape \in {"empty", "array"}
         /\ o.shape = "empty" => (\A i \in 1..Len(r.elems) : r.elems[i].id \in NotifIds) /\ o.entries = <<>>
         /\ o.shape = "array" => Len(o.entries) >= 1
         /\ Bearing(r) # <<>> => o.shape = "array"
         /\ AlignedOK(r, o) /\ Len(Nulls(o)) <= Cardinality(MayNull(r)) /\ ExecsOK(r, o)

(* ------------------------------------------------------------------ *)
(* State machine: handleReader statement by statement                   *)
(* ------------------------------------------------------------------ *)
VARIABLES row, pc, i, first, toks, execs, status
vars == <<row, pc, i, first, toks, execs, status>>

Init == /\ row \in Rows
        /\ pc = "read" /\ i = 0 /\ first = TRUE /\ toks = <<>> /\ status = 0
        /\ execs = [j \in 1..Len(row.elems) |-> 0]

WriteErr(code, st) == /\ toks' = Append(toks, Tok(0, "null", "error", code))
                      /\ status' = IF status = 0 /\ toks = <<>> THEN st ELSE status

\* size check passed; TrimSpace; reqSize == 0 ?
ReadBody == /\ pc = "read" /\ row.kind = "http"
            /\ IF row.body \in {"empty", "ws"}
               THEN WriteErr(0 - 32600, 400) /\ pc' = "done"
               ELSE /\ pc' = IF row.body \in {"batch", "batchbad", "emptybatch"} THEN "decodebatch" ELSE "decodesingle"
                    /\ UNCHANGED <<toks, status>>
            /\ UNCHANGED <<row, i, first, execs>>
DecodeBatch == /\ pc = "decodebatch"
               /\ CASE row.body = "batchbad"   -> WriteErr(0 - 32700, 500) /\ pc' = "done"
                    [] row.body = "emptybatch" -> WriteErr(0 - 32600, 400) /\ pc' = "done"
                    [] OTHER                   -> pc' = "elem" /\ UNCHANGED <<toks, status>>
               /\ i' = 1 /\ UNCHANGED <<row, first, execs>>
\* one iteration of the batch loop: render the element into its own buffer, then separator + bytes if any
BatchElem == /\ pc = "elem" /\ i <= Len(row.elems)
             /\ LET p == ProcessElem(i, row.elems[i], "http") IN
                /\ execs' = [execs EXCEPT ![i] = p.exec]
                /\ IF p.out = <<>>
                   THEN UNCHANGED <<toks, first>>
                   ELSE /\ toks' = toks \o <<IF first THEN Sep("[") ELSE Sep(",")>> \o p.out
                        /\ first' = FALSE
             /\ i' = i + 1 /\ status' = IF status = 0 THEN 200 ELSE status
             /\ UNCHANGED <<row, pc>>
BatchEnd == /\ pc = "elem" /\ i > Len(row.elems)
            /\ toks' = IF first THEN toks ELSE Append(toks, Sep("]"))
            /\ pc' = "done" /\ UNCHANGED <<row, i, first, execs, status>>
DecodeSingle == /\ pc = "decodesingle"
                /\ CASE row.body \in {"garbage", "nonobject"} -> WriteErr(0 - 32700, 500) /\ pc' = "done" /\ UNCHANGED execs
                     [] row.body = "nullbody" -> WriteErr(0 - 32601, 500) /\ pc' = "done" /\ UNCHANGED execs
                     [] row.body = "single" ->
                          LET p == ProcessElem(1, row.elems[1], "http") IN
                          /\ toks' = toks \o p.out /\ execs' = [execs EXCEPT ![1] = p.exec]
                          /\ status' = IF p.out # <<>> /\ p.out[1].res = "error" /\ ~(row.elems[1].req \in RunErr /\ row.elems[1].id \in ValidIds) THEN 500 ELSE 200
                          /\ pc' = "done"
                /\ UNCHANGED <<row, i, first>>
\* WebSocket: the frame executor handles the frames one by one
WsFrame == /\ pc = "read" /\ row.kind = "ws" /\ i < Len(row.elems)
           /\ LET p == ProcessElem(i + 1, row.elems[i + 1], "ws") IN
              /\ toks' = toks \o p.out /\ execs' = [execs EXCEPT ![i + 1] = p.exec]
           /\ i' = i + 1 /\ UNCHANGED <<row, pc, first, status>>
WsEnd   == /\ pc = "read" /\ row.kind = "ws" /\ i = Len(row.elems)
           /\ pc' = "done" /\ UNCHANGED <<row, i, first, toks, execs, status>>

Next == ReadBody \/ DecodeBatch \/ BatchElem \/ BatchEnd \/ DecodeSingle \/ WsFrame \/ WsEnd
Spec == Init /\ [][Next]_vars

(* output tokens -> what a JSON parser would see *)
IsObj(t) == "src" \in DOMAIN t
IsSep(t, x) == "sep" \in DOMAIN t /\ t.sep = x
Objs     == SelectSeq(toks, IsObj)
\* well-formed: empty | one object | "[" obj ("," obj)* "]"
WellFormed ==
  \/ toks = <<>>
  \/ (Len(toks) = 1 /\ IsObj(toks[1]))
  \/ /\ Len(toks) >= 3 /\ IsSep(toks[1], "[") /\ IsSep(toks[Len(toks)], "]")
     /\ \A k \in 2..(Len(toks) - 1) : IF k % 2 = 0 THEN IsObj(toks[k]) ELSE IsSep(toks[k], ",")
     /\ Len(toks) % 2 = 1
ModelShape == IF row.kind = "ws" THEN "frames"
              ELSE IF toks = <<>> THEN "empty"
              ELSE IF ~WellFormed THEN "malformed"
              ELSE IF IsSep(toks[1], "[") THEN "array" ELSE "object"
ModelOut == [shape |-> ModelShape, status |-> status, entries |-> Objs, execs |-> execs]

\* the model's own output as an observation (id = src for echoed ids, 0 for null)
AsObs(mo, r) == [shape |-> mo.shape,
                 entries |-> [k \in 1..Len(mo.entries) |->
                                [id |-> IF mo.entries[k].id = "null" THEN 0 ELSE mo.entries[k].src,
                                 res |-> mo.entries[k].res, code |-> mo.entries[k].code, v2 |-> TRUE, vok |-> TRUE]],
                 execs |-> mo.execs]

StepwiseAgrees    == pc = "done" => ModelOut = Expected(row)
AlwaysWellFormed  == pc = "done" => ModelShape # "malformed"
ModelSatisfiesC09 == pc = "done" => P_C09(row, AsObs(ModelOut, row))
=============================================================================
