SPECIFICATION Spec
CONSTANTS
  Unary = {}
  Subs = {}
  Notifs = {}
  Retry = {r1}
  NVals = 0
  MaxGen = 1
  MaxFaults = 1
  AllowStop = FALSE
  AllowCancel = FALSE
  AllowHalf = FALSE
  Reconnect = TRUE
  MaxAttempts = 2
  FixExitOrder = TRUE
  FixReadErr = TRUE
  FixStaleDelete = TRUE
INVARIANT RetryMayRepeat
CHECK_DEADLOCK FALSE
