SPECIFICATION Spec
INVARIANT ModelSatisfiesC01
INVARIANT StepwiseAgrees
CHECK_DEADLOCK FALSE
