------------------------------ MODULE AuthMC ------------------------------
(* Model-checking entry point: checks Auth and exports the full row table. *)
EXTENDS Auth, Json, SequencesExt
WithExp(r) == [row |-> r, exp |-> Expected(r)]
ASSUME ndJsonSerialize("rows.ndjson", SetToSeq({WithExp(r) : r \in ProxyRows \cup HandlerRows}))
=============================================================================
