------------------------------- MODULE Panic -------------------------------
(***************************************************************************)
(* handler.doCall / handler.handle around a panicking handler method, with  *)
(* sibling calls in flight on the same connection (frame executor spawns    *)
(* one goroutine per call), on another connection and over HTTP.            *)
(* Recover = FALSE shows the process dying (non-vacuity witness).            *)
(***************************************************************************)
EXTENDS Naturals, Sequences, FiniteSets, TLC
CONSTANT Recover
Kinds      == {"unary", "notify", "sub", "reverse"}
Payloads   == {"string", "error", "nilmap", "nilptr", "custom", "int", "nil", "badError", "badStringer", "index"}
Transports == {"ws", "http"}
Rows == {r \in [kind : Kinds, payload : Payloads, tr : Transports, siblings : BOOLEAN, twice : BOOLEAN] :
           r.tr = "http" => r.kind \in {"unary", "notify"}}

VARIABLES row, pc, alive, reply, sib
vars == <<row, pc, alive, reply, sib>>
Init == row \in Rows /\ pc = "call" /\ alive = TRUE /\ reply = "none" /\ sib = "running"
\* f.Call(params) panics inside doCall
HandlerPanics == /\ pc = "call" /\ pc' = (IF Recover THEN "recovered" ELSE "unwinding") /\ UNCHANGED <<row, alive, reply, sib>>
\* no recover: the panic unwinds the handler goroutine and kills the process, siblings die with it
Crash == /\ pc = "unwinding" /\ alive' = FALSE /\ sib' = "dead" /\ pc' = "done" /\ UNCHANGED <<row, reply>>
\* recover(): err = "panic in rpc method ..."; rpcError(..., 0, "fatal error calling ..."); notifications get no reply over ws
Respond == /\ pc = "recovered"
           /\ reply' = (IF row.kind = "notify" THEN "none" ELSE "panic-error")
           /\ pc' = "siblings" /\ UNCHANGED <<row, alive, sib>>
\* every other call runs in its own goroutine and completes as usual
SiblingsFinish == /\ pc = "siblings" /\ sib' = "completed" /\ pc' = "done" /\ UNCHANGED <<row, alive, reply>>
Next == HandlerPanics \/ Crash \/ Respond \/ SiblingsFinish
Spec == Init /\ [][Next]_vars
Confined == pc = "done" => /\ alive /\ sib = "completed"
                           /\ (row.kind # "notify" => reply = "panic-error")
=============================================================================
