----------------------------- MODULE WsRpcTrace -----------------------------
(***************************************************************************)
(* Implementation-level binding of WsRpc to the code: the hook events       *)
(* (vpoint call sites, build tag verif) of ONE recorded scenario, merged     *)
(* with the harness' API-level events in their single total order, must be   *)
(* a behaviour of WsRpc.  Every logged event consumes one trace line and     *)
(* takes the WsRpc action it is the linearization point of, with the logged  *)
(* arguments bound; steps the recorder cannot see (environment decisions,    *)
(* server-side frame handling that has no harness event, network loss) are   *)
(* silent and bounded by the model state.  The trace is accepted iff some    *)
(* interleaving of silent steps consumes every line (high-water mark in      *)
(* TLC register 1).                                                          *)
(*                                                                         *)
(* The harness annotates hook events carrying a wire id with the call token  *)
(* ("tok"), derived from the req.params hook; constants are derived from     *)
(* the trace (call tokens by kind, number of reconnects and faults).         *)
(***************************************************************************)
EXTENDS WsRpc, Json, SequencesExt

Trace == ndJsonDeserialize("trace.ndjson")

Evs(name)  == {i \in 1..Len(Trace) : Trace[i].ev = name}
KindToks(K) == {Trace[i].call : i \in {j \in Evs("CallStart") : Trace[j].kind \in K}}
TraceRetry == KindToks({"retry"})
TraceReconnect == ~(\E i \in Evs("reset") : "noreconnect" \in DOMAIN Trace[i].args /\ Trace[i].args.noreconnect)
TraceNotif == KindToks({"notify", "panicnotify"})
TraceSubs  == KindToks({"sub"})
EnqToks == {Trace[i].tok : i \in {j \in Evs("h:req.enq.pre") : "tok" \in DOMAIN Trace[j] /\ Trace[j].method # "xrpc.cancel"}}
TraceUnary == (KindToks({"unary", "big", "bigreq", "callback", "panic"}) \cup EnqToks) \ (TraceRetry \cup TraceNotif \cup TraceSubs)
TraceMaxGen    == Cardinality(Evs("h:redial.swap"))
TraceMaxFaults == Cardinality(Evs("WireFault")) + Cardinality(Evs("h:ws.done")) + 1
TraceNVals     == 1000

\* the configuration file of a run carries these values as literals (computed by lib/props.py: re-evaluating the definitions above
\* at every reference made validation ten times slower); they must be the ones defined here
ASSUME /\ Unary = TraceUnary /\ Subs = TraceSubs /\ Notifs = TraceNotif /\ Retry = TraceRetry
       /\ MaxGen = TraceMaxGen /\ MaxFaults = TraceMaxFaults /\ Reconnect = TraceReconnect

VARIABLES l, pend       \* position in the trace; connections whose server side has ended but whose close has not reached the wire yet
tvars == <<vars, l, pend>>

Ev   == Trace[l]
Is(n) == l <= Len(Trace) /\ Trace[l].ev = n
Cli   == Is(Trace[l].ev) /\ ("role" \notin DOMAIN Trace[l] \/ Trace[l].role = "client")
Srv   == Is(Trace[l].ev) /\ "role" \in DOMAIN Trace[l] /\ Trace[l].role = "server"
Adv  == l' = l + 1
Skip == UNCHANGED vars /\ Adv
K    == Ev.tok
IsCancelReq == "method" \in DOMAIN Ev /\ Ev.method = "xrpc.cancel"
NoId == "id" \in DOMAIN Ev /\ Ev.id = "nil"

\* frames still in flight when a connection dies are lost (reset, or cut before they left the proxy)
NetDrop == \E g \in Gens :
             /\ link[g] # "up"
             /\ \/ (Len(s2c[g]) > 0 /\ s2c' = [s2c EXCEPT ![g] = Tail(@)] /\ UNCHANGED c2s)
                \/ (Len(c2s[g]) > 0 /\ c2s' = [c2s EXCEPT ![g] = Tail(@)] /\ UNCHANGED s2c)
             /\ UNCHANGED <<callerVars, connVars, chanVars, link, cut, faults, srvVars>>

CutNow(g) == /\ g \in Gens /\ link[g] = "up" /\ faults < MaxFaults
             /\ s2c' = [s2c EXCEPT ![g] = Append(@, <<"trunc">>)] /\ link' = [link EXCEPT ![g] = "dead"] /\ faults' = faults + 1
             /\ UNCHANGED <<callerVars, connVars, chanVars, c2s, cut, srvVars>>

WireVal(g, chid) == /\ g \in Gens
                    /\ \E c \in srvCh[g] : /\ c[1] = chid
                                            /\ s2c' = Send(g, <<"val", c[1], c[2], g, c[3]>>) /\ link' = LinkAfterSend(g)
                                            /\ srvCh' = [srvCh EXCEPT ![g] = (@ \ {c}) \cup {<<c[1], c[2], c[3] + 1>>}]
                    /\ UNCHANGED <<callerVars, connVars, chanVars, c2s, cut, faults, srvRun, srvCtx, chanCtr, execs, wireReq, idOnWire>>
WireCls(g, chid) == /\ g \in Gens
                    /\ \E c \in srvCh[g] : /\ c[1] = chid
                                            /\ s2c' = Send(g, <<"cls", c[1]>>) /\ link' = LinkAfterSend(g)
                                            /\ srvCh' = [srvCh EXCEPT ![g] = @ \ {c}]
                    /\ UNCHANGED <<callerVars, connVars, chanVars, c2s, cut, faults, srvRun, srvCtx, chanCtr, execs, wireReq, idOnWire>>

\* steps the recorder does not see (all bounded by the model state)
SilentStep ==
     \/ MainExitWaitExec \/ MainStopClose
     \/ \E k \in Calls : CancelArm(k) \/ CancelGiveUp(k)
     \/ \E k \in Notifs : MainReqCheck(k)
     \/ \E g \in Gens : SrvConnEnd(g)
     \/ \E g \in Gens : (Len(c2s[g]) > 0 /\ Head(c2s[g])[1] = "notif" /\ SrvRecv(g))
     \/ \E g \in Gens, k \in Notifs : SrvRespond(g, k)
     \/ NetDrop
Silent ==
  /\ l <= Len(Trace) /\ UNCHANGED l
  /\ \/ (\E g \in pend : FaultFin(g) /\ pend' = pend \ {g})     \* the server's close reaches the wire after everything it wrote before
     \/ UNCHANGED pend /\ SilentStep

Bound == {"reset", "h:exec.pop", "h:resp.lookup.lk", "h:chanh.val", "h:chanh.close", "h:req.enq.pre", "h:req.exiterr", "h:main.req", "h:main.failfast", "h:inflight.add", "h:wl.enter", "h:main.notifdone", "h:req.ret",
          "WireFrame", "h:rd.msg.pre", "h:main.incoming", "h:main.readerr", "h:rd.queue.pre", "h:rd.readerr", "h:rd.err", "h:closeinflight.pre", "h:closechans",
          "h:redial.spawn", "h:redial.dial", "h:redial.swap", "h:redial.abort", "h:chanh.add", "h:resp.deliver.pre", "h:inflight.del",
          "h:main.stop", "WireFault", "CloserStart", "CallerCancel", "ChanRecv", "ChanClosed", "h:ctxasync.done"}
ClientOnly == {"h:resp.lookup.lk", "h:chanh.val", "h:chanh.close", "h:rd.msg.pre", "h:main.incoming", "h:main.readerr", "h:rd.queue.pre", "h:rd.readerr", "h:rd.err", "h:closeinflight.pre", "h:closechans", "h:redial.spawn",
               "h:redial.dial", "h:redial.swap", "h:redial.abort", "h:chanh.add", "h:resp.deliver.pre", "h:inflight.del", "h:main.stop"}
\* the frame the executor pops is the one the hook names
PopMatches == LET f == Head(execQ) IN f[1] = "resp" => ("tok" \in DOMAIN Ev /\ f[2] = Ev.tok)

LoggedStep ==
  \/ Is("reset") /\ Skip
  \/ Is("CloserStart") /\ (Stop \/ (stopped /\ UNCHANGED vars)) /\ Adv
  \/ Is("CallerCancel") /\ Ev.call \in Calls /\ (CtxCancel(Ev.call) \/ (cancelled[Ev.call] /\ UNCHANGED vars)) /\ Adv
  \/ Is("CallerCancel") /\ Ev.call \notin Calls /\ Skip
  \/ Is("h:req.enq.pre") /\ ~IsCancelReq /\ ~NoId /\ CallStart(K) /\ Adv
  \/ Is("h:req.enq.pre") /\ ~IsCancelReq /\ NoId /\ (\E k \in Notifs : CallStart(k)) /\ Adv    \* a notification carries no id to tell which
  \/ Is("h:req.enq.pre") /\ IsCancelReq /\ Skip
  \/ Is("h:req.exiterr") /\ ~IsCancelReq /\ ~NoId /\ CallExitErr(K) /\ Adv
  \/ Is("h:req.exiterr") /\ ~IsCancelReq /\ NoId /\ ((\E k \in Notifs : CallExitErr(k)) \/ UNCHANGED vars) /\ Adv
  \/ Is("h:req.exiterr") /\ IsCancelReq /\ Skip
  \/ Is("h:main.req") /\ ~IsCancelReq /\ MainRecvReq(K) /\ Adv
  \/ Is("h:main.req") /\ IsCancelReq /\ MainRecvCancel(K) /\ Adv
  \/ Is("h:main.failfast") /\ incErr /\ MainReqCheck(K) /\ Adv
  \/ Is("h:inflight.add") /\ ~incErr /\ MainReqCheck(K) /\ Adv
  \* the write section of sendRequest is entered: from here on the frame may be seen by the peer (the post-write point
  \* write.req comes too late: the server may already have popped the frame)
  \/ Is("h:wl.enter") /\ Cli /\ Ev.w = "req" /\ ~IsCancelReq /\ "tok" \in DOMAIN Ev /\ MainWrite(K) /\ Adv
  \/ Is("h:wl.enter") /\ Cli /\ Ev.w = "req" /\ IsCancelReq /\ mainpc[1] = "writecancel" /\ MainWriteCancel(mainpc[2]) /\ Adv
  \/ Is("h:wl.enter") /\ Cli /\ Ev.w = "req" /\ IsCancelReq /\ mainpc[1] # "writecancel" /\ (\E k \in Calls : SubCtxCancel(k)) /\ Adv
  \/ Is("h:wl.enter") /\ ~(Cli /\ Ev.w = "req") /\ Skip
  \/ Is("h:main.notifdone") /\ mainpc[1] = "notifdone" /\ MainNotifDone(mainpc[2]) /\ Adv
  \/ Is("h:main.notifdone") /\ mainpc[1] # "notifdone" /\ Skip        \* completion of a cancel request (its ready channel is nobody's)
  \/ Is("h:req.ret") /\ ~NoId /\ CallReturn(K) /\ Adv
  \/ Is("h:req.ret") /\ NoId /\ (\E k \in Notifs : CallReturn(k)) /\ Adv
  \* the server's frame executor pops a request (or cancel) frame: in wire order
  \/ Is("h:exec.pop") /\ Srv /\ Ev.method = "xrpc.cancel"
        /\ (\E g \in Gens : Len(c2s[g]) > 0 /\ Head(c2s[g])[1] = "cancel" /\ SrvRecv(g)) /\ Adv
  \/ Is("h:exec.pop") /\ Srv /\ Ev.method \notin {"", "xrpc.cancel", "xrpc.ch.val", "xrpc.ch.close"} /\ "tok" \in DOMAIN Ev
        /\ (\E g \in Gens : Len(c2s[g]) > 0 /\ Head(c2s[g])[1] = "req" /\ Head(c2s[g])[2] = Ev.tok /\ SrvRecv(g)) /\ Adv
  \/ Is("h:exec.pop") /\ Srv /\ (Ev.method \in {"", "xrpc.ch.val", "xrpc.ch.close"} \/ (Ev.method # "xrpc.cancel" /\ "tok" \notin DOMAIN Ev)) /\ Skip
  \* a complete response frame has left the server (seen by the proxy, in wire order, before the client can read it)
  \/ Is("WireFrame") /\ Ev.kind = "resp" /\ Ev.dir = "s2c" /\ "tok" \in DOMAIN Ev /\ Ev.tok \in Calls
        /\ (\E g \in Gens : SrvRespond(g, Ev.tok)) /\ Adv
  \* channel values and closes leave the server (the forwarder decides when; the proxy sees them in wire order)
  \/ Is("WireFrame") /\ Ev.kind = "chval" /\ Ev.dir = "s2c" /\ WireVal(Ev.conn - 1, Ev.chid) /\ Adv
  \/ Is("WireFrame") /\ Ev.kind = "chclose" /\ Ev.dir = "s2c" /\ WireCls(Ev.conn - 1, Ev.chid) /\ Adv
  \/ Is("WireFrame") /\ ~(Ev.dir = "s2c" /\ (Ev.kind \in {"chval", "chclose"} \/ (Ev.kind = "resp" /\ "tok" \in DOMAIN Ev /\ Ev.tok \in Calls))) /\ Skip
  \* the subscription context watcher woke up: the context was cancelled (by the caller, logged or not)
  \/ Is("h:ctxasync.done") /\ "tok" \in DOMAIN Ev /\ Ev.tok \in Calls
        /\ (IF cancelled[Ev.tok] THEN UNCHANGED vars ELSE CtxCancel(Ev.tok)) /\ Adv
  \/ Is("h:ctxasync.done") /\ ~("tok" \in DOMAIN Ev /\ Ev.tok \in Calls) /\ Skip
  \* the consumer of a subscription
  \/ Is("ChanRecv") /\ Ev.call \in Subs /\ BufDeliver(Ev.call) /\ Adv
  \/ Is("ChanClosed") /\ Ev.call \in Subs /\ (BufClose(Ev.call) \/ BufCtxClose(Ev.call)) /\ Adv
  \/ Is("h:rd.msg.pre") /\ Cli /\ RdNext /\ Adv
  \/ Is("h:main.incoming") /\ Cli /\ Ev.ok /\ MainIncomingMsg /\ Adv
  \* incoming closed: with a factory the step is taken at closeInFlight (tryReconnect); without one the loop leaves at once
  \/ Is("h:main.incoming") /\ Cli /\ ~Ev.ok /\ (IF Reconnect THEN UNCHANGED vars ELSE MainIncomingClosed) /\ Adv
  \/ Is("h:main.readerr") /\ Cli /\ (IF Reconnect THEN UNCHANGED vars ELSE MainReadError) /\ Adv
  \/ Is("h:rd.queue.pre") /\ Cli /\ RdFrameOk /\ Adv       \* before the send: the executor may log its pop before the post point
  \/ Is("h:rd.readerr") /\ Cli /\ RdFrameFail /\ Adv
  \/ Is("h:rd.err") /\ Cli /\ RdErr /\ Adv
  \/ Is("h:closeinflight.pre") /\ Cli /\ ((Reconnect /\ (MainIncomingClosed \/ MainReadError)) \/ MainExitInFlight) /\ Adv
  \/ Is("h:closechans") /\ Cli /\ (MainCloseChans \/ MainExitChans) /\ Adv
  \/ Is("h:redial.spawn") /\ Cli /\ MainSpawnRedial /\ Adv
  \/ Is("h:redial.dial") /\ Cli /\ Ev.ok /\ RcDial /\ Adv
  \/ Is("h:redial.dial") /\ Cli /\ ~Ev.ok /\ Skip
  \/ Is("h:redial.swap") /\ Cli /\ RcSwap /\ Adv
  \/ Is("h:redial.abort") /\ Cli /\ (RcAbort \/ (rc = "none" /\ UNCHANGED vars)) /\ Adv
  \/ Is("h:exec.pop") /\ Cli /\ Len(execQ) > 0 /\ PopMatches /\ ExPop /\ Adv
  \* the table lookups of the popped frame, each under its lock, with the logged outcome
  \/ Is("h:resp.lookup.lk") /\ Cli /\ ex[1] = "popped" /\ ex[2][1] = "resp" /\ "tok" \in DOMAIN Ev /\ ex[2][2] = Ev.tok
        /\ Ev.found = (\E e \in inflight : e[1] = Ev.tok) /\ ExLookup /\ Adv
  \/ Is("h:chanh.val") /\ Cli /\ ex[1] = "popped" /\ ex[2][1] = "val" /\ ex[2][2] = Ev.chid
        /\ Ev.found = (\E h \in chanH : h[1] = Ev.chid) /\ ExLookup /\ Adv
  \/ Is("h:chanh.close") /\ Cli /\ ex[1] = "popped" /\ ex[2][1] = "cls" /\ ex[2][2] = Ev.chid
        /\ Ev.found = (\E h \in chanH : h[1] = Ev.chid) /\ ExLookup /\ Adv
  \/ Is("h:exec.pop") /\ ~Cli /\ ~Srv /\ Skip
  \/ Is("h:chanh.add") /\ Cli /\ ExRegChan /\ Adv
  \/ Is("h:resp.deliver.pre") /\ Cli /\ ExDeliver /\ Adv      \* before the send: the caller may log its return before the post point
  \/ Is("h:inflight.del") /\ Cli /\ ExDelete /\ Adv
  \/ Is("h:main.stop") /\ Cli /\ MainStop /\ Adv
  \* a frame cut inside its payload reaches the reader truncated and the connection is dead
  \/ Is("WireFault") /\ Ev.dir = "s2c" /\ Ev.fault \in {"cut-payload/fin", "cut-payload/rst", "cut-last/fin", "cut-last/rst"} /\ CutNow(Ev.conn - 1) /\ Adv
  \/ Is("WireFault") /\ ~(Ev.dir = "s2c" /\ Ev.fault \in {"cut-payload/fin", "cut-payload/rst", "cut-last/fin", "cut-last/rst"})
        /\ (IF Ev.conn - 1 \in Gens /\ link[Ev.conn - 1] = "up" THEN FaultFin(Ev.conn - 1) ELSE UNCHANGED vars) /\ Adv
  \* everything else (API events that have no counterpart, server-side hooks, bookkeeping) is consumed without a step
  \/ /\ l <= Len(Trace) /\ Trace[l].ev \notin Bound /\ Skip
  \/ /\ l <= Len(Trace) /\ Trace[l].ev \in ClientOnly /\ ~Cli /\ Skip

\* the server side of a connection ends (its handleWsConn returned: peer gone, or the application cancelled the connection's
\* context): the server closes the socket -- a loss, as the client sees it, unless the link is down already.  Frames the server
\* wrote before are still delivered (the proxy logs them later), so the loss itself is a silent step taken from then on.
SrvDone == Is("h:ws.done") /\ Srv /\ "gen" \in DOMAIN Ev
Logged == \/ SrvDone /\ pend' = (IF Ev.gen \in Gens /\ link[Ev.gen] = "up" THEN pend \cup {Ev.gen} ELSE pend) /\ Skip
          \/ ~SrvDone /\ UNCHANGED pend /\ LoggedStep

TInit == Init /\ l = 1 /\ pend = {}
TNext == Logged \/ Silent
TSpec == TInit /\ [][TNext]_tvars

\* the design invariants keep being evaluated on the real execution
TraceInvs == OwnResult /\ MailboxOwn /\ AtMostOnce /\ OwnValuesPrefix
HighWater == TLCSet(1, IF l > TLCGet(1) THEN l ELSE TLCGet(1))
Report == /\ HighWater
          /\ l = Len(Trace) + 1 => JsonSerialize("binding.json", [n |-> Len(Trace), consumed |-> l - 1])
ASSUME TLCSet(1, 0)
Post == PrintT(<<"HIGHWATER", TLCGet(1)>>)
=============================================================================
