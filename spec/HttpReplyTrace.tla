--------------------------- MODULE HttpReplyTrace ---------------------------
(* Conformance + verdicts for C09 (and the reply-shape part of C13): every trace line is one HttpReply row    *)
(* sent as real bytes to a real RPCServer (HandleRequest, real HTTP, or WebSocket frames). The HttpReply      *)
(* state machine is run on the row; at pc = "done" its output is compared with the observed reply (drift)     *)
(* and P_C09 is evaluated on the observed reply (verdict).                                                    *)
EXTENDS HttpReply, Json

Trace == ndJsonDeserialize("trace.ndjson")
VARIABLES l, viol, drift
tvars == <<row, pc, i, first, toks, execs, status, l, viol, drift>>

RowOf(e) == [kind |-> e.row.kind, body |-> e.row.body, elems |-> e.row.elems]
ObsOf(e) == [shape |-> e.obs.shape, entries |-> e.obs.entries, execs |-> e.obs.execs]

Load(j) == /\ row' = RowOf(Trace[j]) /\ pc' = "read" /\ i' = 0 /\ first' = TRUE /\ toks' = <<>> /\ status' = 0
           /\ execs' = [k \in 1..Len(Trace[j].row.elems) |-> 0]

TInit == /\ l = 1 /\ viol = <<>> /\ drift = <<>>
         /\ IF Len(Trace) >= 1
            THEN row = RowOf(Trace[1]) /\ pc = "read" /\ execs = [k \in 1..Len(Trace[1].row.elems) |-> 0]
            ELSE row = [kind |-> "none"] /\ pc = "end" /\ execs = <<>>
         /\ i = 0 /\ first = TRUE /\ toks = <<>> /\ status = 0
TStep == /\ pc \notin {"done", "end"} /\ Next /\ UNCHANGED <<l, viol, drift>>
\* order-insensitive comparison for WebSocket rows (responses come from concurrent handler goroutines)
SameObs(o, m, r) ==
  IF r.kind = "ws"
  THEN /\ o.shape = m.shape /\ o.execs = m.execs /\ Len(o.entries) = Len(m.entries)
       /\ \A k \in 1..Len(m.entries) : \E j \in 1..Len(o.entries) : o.entries[j] = m.entries[k]
  ELSE o = m
TCheck == /\ pc = "done"
          /\ LET o == ObsOf(Trace[l]) IN
             /\ viol'  = IF P_C09(row, o) THEN viol ELSE Append(viol, l)
             /\ drift' = IF SameObs(o, AsObs(ModelOut, row), row) /\ (Trace[l].obs.status = 0 - 1 \/ row.kind = "ws" \/ Trace[l].obs.status = status)
                         THEN drift ELSE Append(drift, l)
          /\ l' = l + 1
          /\ IF l + 1 <= Len(Trace) THEN Load(l + 1) ELSE pc' = "end" /\ UNCHANGED <<row, i, first, toks, execs, status>>
TNext == TStep \/ TCheck
TSpec == TInit /\ [][TNext]_tvars
Report == pc = "end" => JsonSerialize("result.json", [n |-> Len(Trace), consumed |-> l - 1, viol |-> viol, drift |-> drift])
=============================================================================
