---------------------------- MODULE HttpReplyMC ----------------------------
(* Model-checking entry point for HttpReply: batches are built from a TLC-sampled set of element types      *)
(* (RandomSubset, seeded by -seed) plus fixed notification / invalid-id elements; singles use every element. *)
EXTENDS HttpReply, Json, SequencesExt, Randomization
CONSTANTS NElems
Fixed == {[id |-> "absent", req |-> "void"], [id |-> "null", req |-> "unknown"], [id |-> "bool", req |-> "val"], [id |-> "int", req |-> "val"]}
Sample == RandomSubset(NElems, Elems) \cup Fixed
WithExp(r) == [row |-> r, exp |-> Expected(r)]
ASSUME ndJsonSerialize("rows.ndjson", SetToSeq({WithExp(r) : r \in Rows}))
=============================================================================
