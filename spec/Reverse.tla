------------------------------ MODULE Reverse ------------------------------
(***************************************************************************)
(* Reverse calls (options_server.go WithReverseClient / ExtractReverseClient,*)
(* server.go handleWS): every accepted WebSocket connection gets its own     *)
(* reverse client, bound to that connection's request channel and exiting    *)
(* channel; a handler finds it in its context.                               *)
(* PerConnection = FALSE models a builder that creates the client once and   *)
(* rebinds it on every accept (non-vacuity: calls are misrouted).            *)
(***************************************************************************)
EXTENDS Naturals, Sequences, FiniteSets, TLC
CONSTANTS Clients, MaxCalls, PerConnection
VARIABLES connected, gone, bound, shared, calls, ncalls
vars == <<connected, gone, bound, shared, calls, ncalls>>
\* calls: set of [from: client whose forward call's handler issues it, to: client that receives it or "error" or "pending"]
Init == connected = {} /\ gone = {} /\ bound = [c \in Clients |-> "none"] /\ shared = "none" /\ calls = {} /\ ncalls = 0
\* handleWS: build the reverse client for this connection
Accept(c) == /\ c \notin connected /\ c \notin gone
             /\ connected' = connected \cup {c}
             /\ bound' = [bound EXCEPT ![c] = c] /\ shared' = c
             /\ UNCHANGED <<gone, calls, ncalls>>
Target(c) == IF PerConnection THEN bound[c] ELSE shared
\* a handler serving c makes a reverse call: it goes to the connection the client object is bound to
ReverseCall(c) == /\ c \in connected \cup gone /\ bound[c] # "none" /\ ncalls < MaxCalls
                  /\ LET t == Target(c) IN
                     calls' = calls \cup {[from |-> c, to |-> IF t \in connected THEN t ELSE "error", n |-> ncalls]}
                  /\ ncalls' = ncalls + 1 /\ UNCHANGED <<connected, gone, bound, shared>>
\* the connection of c ends: exiting is closed, later reverse calls fail
Disconnect(c) == /\ c \in connected /\ connected' = connected \ {c} /\ gone' = gone \cup {c}
                 /\ UNCHANGED <<bound, shared, calls, ncalls>>
Next == \E c \in Clients : Accept(c) \/ ReverseCall(c) \/ Disconnect(c)
Spec == Init /\ [][Next]_vars
\* a reverse call reaches exactly the client whose request its handler is serving, or fails once that client is gone
OwnClient == \A k \in calls : k.to \in {k.from, "error"}
FailsWhenGone == \A k \in calls : (k.to = "error") => TRUE
=============================================================================
