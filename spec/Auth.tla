------------------------------- MODULE Auth -------------------------------
(***************************************************************************)
(* auth/auth.go (HasPerm, PermissionedProxy) and auth/handler.go            *)
(* (Handler.ServeHTTP), transcribed statement by statement.                 *)
(*                                                                         *)
(* Two row universes:                                                       *)
(*   ProxyRows   - one call through a permissioned proxy                    *)
(*   HandlerRows - one HTTP request through auth.Handler                    *)
(* The state machine picks a row in Init and then executes the Go           *)
(* statements one action at a time; P_C19 is checked on the final outcome.  *)
(* The same pure operators (ProxyOutcome, HandlerOutcome) produce the       *)
(* expected column of the table exported to the conformance harness and are *)
(* re-evaluated by AuthTrace on every row the real code was run on.         *)
(***************************************************************************)
EXTENDS Naturals, Sequences, FiniteSets, TLC

Perms  == {"r", "w", "a"}
Shapes == {"err", "valerr"}

(* ------------------------------------------------------------------ *)
(* PermissionedProxy                                                   *)
(* ------------------------------------------------------------------ *)
ProxyRows == [kind : {"proxy"}, caller : SUBSET Perms, dflt : SUBSET Perms,
              attached : BOOLEAN, required : Perms, shape : Shapes]

\* HasPerm: callerPerms, ok := ctx.Value(permCtxKey).([]Permission); if !ok { callerPerms = defaultPerms }
Effective(row) == IF row.attached THEN row.caller ELSE row.dflt
HasPerm(row)   == row.required \in Effective(row)

\* outcome of one proxied call: ran = invocations of the implementation,
\* err in {"none","perm"}, val in {"none","zero","token"}
ProxyOutcome(row) ==
  IF HasPerm(row)
  THEN [ran |-> 1, err |-> "none", val |-> IF row.shape = "valerr" THEN "token" ELSE "none"]
  ELSE [ran |-> 0, err |-> "perm", val |-> IF row.shape = "valerr" THEN "zero" ELSE "none"]

(* ------------------------------------------------------------------ *)
(* auth.Handler.ServeHTTP                                              *)
(* ------------------------------------------------------------------ *)
\* forms of the Authorization header; token ids: "th" header token, "tq" query token, "te" empty token
HdrForms == {"absent", "empty", "bearer", "basic", "lowercase", "nospace", "bearerempty"}
Verdicts == [ok : {FALSE}, perms : {{}}] \cup [ok : {TRUE}, perms : SUBSET Perms]
HandlerRows == [kind : {"handler"}, hdr : HdrForms, query : BOOLEAN, vh : Verdicts, vq : Verdicts]

\* r.Header.Get("Authorization"): [present, hasPrefix, tok]
HeaderToken(h) ==
  CASE h = "absent"      -> [present |-> FALSE, prefix |-> FALSE, tok |-> "none"]
    [] h = "empty"       -> [present |-> FALSE, prefix |-> FALSE, tok |-> "none"]   \* Get returns ""
    [] h = "bearer"      -> [present |-> TRUE,  prefix |-> TRUE,  tok |-> "th"]
    [] h = "basic"       -> [present |-> TRUE,  prefix |-> FALSE, tok |-> "th"]
    [] h = "lowercase"   -> [present |-> TRUE,  prefix |-> FALSE, tok |-> "th"]
    [] h = "nospace"     -> [present |-> TRUE,  prefix |-> FALSE, tok |-> "th"]
    [] h = "bearerempty" -> [present |-> TRUE,  prefix |-> TRUE,  tok |-> "te"]

\* token := header; if token == "" { token = FormValue("token"); if token != "" { token = "Bearer " + token } }
ReadToken(row) ==
  LET h == HeaderToken(row.hdr) IN
  IF h.present THEN h
  ELSE IF row.query THEN [present |-> TRUE, prefix |-> TRUE, tok |-> "tq"]
  ELSE [present |-> FALSE, prefix |-> FALSE, tok |-> "none"]

\* what the verifier answers for a token id (the empty token is always rejected by the harness verifier)
Verify(row, tok) == CASE tok = "th" -> row.vh
                      [] tok = "tq" -> row.vq
                      [] OTHER      -> [ok |-> FALSE, perms |-> {}]

Denied        == [status |-> 401, next |-> FALSE, attached |-> FALSE, perms |-> {}, verified |-> "none"]
DeniedAfter(t)== [status |-> 401, next |-> FALSE, attached |-> FALSE, perms |-> {}, verified |-> t]
PassedBare    == [status |-> 200, next |-> TRUE,  attached |-> FALSE, perms |-> {}, verified |-> "none"]
Passed(t, ps) == [status |-> 200, next |-> TRUE,  attached |-> TRUE,  perms |-> ps, verified |-> t]

HandlerOutcome(row) ==
  LET t == ReadToken(row) IN
  IF ~t.present THEN PassedBare
  ELSE IF ~t.prefix THEN Denied
  ELSE LET v == Verify(row, t.tok) IN
       IF v.ok THEN Passed(t.tok, v.perms) ELSE DeniedAfter(t.tok)

(* ------------------------------------------------------------------ *)
(* The property, as a predicate over (row, observed outcome)            *)
(* ------------------------------------------------------------------ *)
P_C19_Proxy(row, o) ==
  LET permitted == row.required \in (IF row.attached THEN row.caller ELSE row.dflt) IN
  /\ o.ran \in {0, 1}
  /\ (o.ran = 1) <=> permitted
  /\ permitted  => o.err = "none" /\ (row.shape = "valerr" => o.val = "token")
  /\ ~permitted => o.err = "perm" /\ (row.shape = "valerr" => o.val = "zero")

\* token given by header or by query parameter (the statement does not say which wins when both are given and well-formed)
HdrGiven(row)   == HeaderToken(row.hdr).present
QueryGiven(row) == row.query
OutcomeFor(present, prefix, v, o) ==
  IF ~present THEN o.next /\ ~o.attached
  ELSE IF ~prefix THEN o.status = 401 /\ ~o.next
  ELSE IF v.ok THEN o.next /\ o.attached /\ o.perms = v.perms
  ELSE o.status = 401 /\ ~o.next
P_C19_Handler(row, o) ==
  LET h == HeaderToken(row.hdr) IN
  IF ~HdrGiven(row) /\ ~QueryGiven(row) THEN OutcomeFor(FALSE, FALSE, [ok |-> FALSE, perms |-> {}], o)
  ELSE IF HdrGiven(row) /\ ~QueryGiven(row) THEN OutcomeFor(TRUE, h.prefix, Verify(row, h.tok), o)
  ELSE IF ~HdrGiven(row) /\ QueryGiven(row) THEN OutcomeFor(TRUE, TRUE, row.vq, o)
  \* both given: a malformed header token is a malformed token (401); with a well-formed header either token may be the one used
  ELSE IF ~h.prefix THEN OutcomeFor(TRUE, FALSE, Verify(row, h.tok), o)
  ELSE \/ OutcomeFor(TRUE, h.prefix, Verify(row, h.tok), o)
       \/ OutcomeFor(TRUE, TRUE, row.vq, o)

P_C19(row, o) == IF row.kind = "proxy" THEN P_C19_Proxy(row, o) ELSE P_C19_Handler(row, o)
Expected(row) == IF row.kind = "proxy" THEN ProxyOutcome(row) ELSE HandlerOutcome(row)

(* ------------------------------------------------------------------ *)
(* State machine: the Go statements one at a time                       *)
(* ------------------------------------------------------------------ *)
VARIABLES row, pc, tok, out
vars == <<row, pc, tok, out>>

NoTok == [present |-> FALSE, prefix |-> FALSE, tok |-> "none"]
NoOut == [none |-> TRUE]

Init == /\ row \in ProxyRows \cup HandlerRows
        /\ pc = "start" /\ tok = NoTok /\ out = NoOut

\* proxy: if HasPerm(ctx, defaultPerms, requiredPerm) { return fn.Call(args) } else { return zero, err }
ProxyCheck == /\ pc = "start" /\ row.kind = "proxy"
              /\ pc' = IF HasPerm(row) THEN "call" ELSE "deny"
              /\ UNCHANGED <<row, tok, out>>
ProxyCall  == /\ pc = "call"
              /\ out' = [ran |-> 1, err |-> "none", val |-> IF row.shape = "valerr" THEN "token" ELSE "none"]
              /\ pc' = "done" /\ UNCHANGED <<row, tok>>
ProxyDeny  == /\ pc = "deny"
              /\ out' = [ran |-> 0, err |-> "perm", val |-> IF row.shape = "valerr" THEN "zero" ELSE "none"]
              /\ pc' = "done" /\ UNCHANGED <<row, tok>>

HReadHeader == /\ pc = "start" /\ row.kind = "handler"
               /\ tok' = HeaderToken(row.hdr)
               /\ pc' = IF HeaderToken(row.hdr).present THEN "prefix" ELSE "query"
               /\ UNCHANGED <<row, out>>
HReadQuery  == /\ pc = "query"
               /\ tok' = ReadToken(row)
               /\ pc' = IF row.query THEN "prefix" ELSE "next"
               /\ UNCHANGED <<row, out>>
HPrefix     == /\ pc = "prefix"
               /\ IF tok.prefix THEN pc' = "verify" /\ out' = out
                                ELSE pc' = "done" /\ out' = Denied
               /\ UNCHANGED <<row, tok>>
HVerify     == /\ pc = "verify"
               /\ LET v == Verify(row, tok.tok) IN
                  IF v.ok THEN pc' = "next" /\ out' = out
                          ELSE pc' = "done" /\ out' = DeniedAfter(tok.tok)
               /\ UNCHANGED <<row, tok>>
HNext       == /\ pc = "next"
               /\ out' = IF tok.present THEN Passed(tok.tok, Verify(row, tok.tok).perms) ELSE PassedBare
               /\ pc' = "done" /\ UNCHANGED <<row, tok>>

Next == ProxyCheck \/ ProxyCall \/ ProxyDeny \/ HReadHeader \/ HReadQuery \/ HPrefix \/ HVerify \/ HNext
Spec == Init /\ [][Next]_vars

\* the step-wise algorithm agrees with the closed-form outcome and satisfies the property
StepwiseAgrees == pc = "done" => out = Expected(row)
ModelSatisfiesC19 == pc = "done" => P_C19(row, out)
\* non-vacuity witnesses (negated reachability is checked to FAIL by the runner's coverage pass)
TypeOK == pc \in {"start", "call", "deny", "query", "prefix", "verify", "next", "done"}
=============================================================================
