---------------------------- MODULE ReaderParam ----------------------------
(***************************************************************************)
(* httpio/reader.go: the reader-parameter side channel.                     *)
(*                                                                         *)
(* Per call c (identified by its uuid): the client-side encoder starts an   *)
(* upload (HTTP POST of the reader's bytes) and sends the RPC request       *)
(* carrying the uuid; on the server the upload handler and the param        *)
(* decoder meet through a table of unbuffered channels, in either arrival   *)
(* order; the RPC handler then reads the request body through a             *)
(* waitReadCloser whose wait channel releases the upload handler on the     *)
(* first read error (EOF) or Close; once the upload handler returns,        *)
(* net/http closes the body.                                                *)
(*                                                                         *)
(* OnceClose / StickyEOF switch the two repairs off to show that the model  *)
(* exhibits the defects (close of closed channel; EOF not reported          *)
(* consistently once the body has been closed underneath the reader).       *)
(***************************************************************************)
EXTENDS Naturals, Sequences, FiniteSets, TLC

CONSTANTS Calls,        \* call identities
          MaxChunks,    \* stream length in chunks (a Read returns one chunk)
          MaxExtra,     \* reads the handler may issue after the first EOF
          OnceClose,    \* TRUE: wait is closed through a sync.Once
          StickyEOF     \* TRUE: the first read error is remembered and returned again

VARIABLES len,          \* [Calls -> 0..MaxChunks]   chunks the caller's reader holds
          table,        \* set of calls with a rendez-vous channel in the readers table
          up,           \* [Calls -> "none" | "arrived" | "offering" | "waiting" | "returned"]   upload handler
          dec,          \* [Calls -> "none" | "arrived" | "got"]                                 param decoder
          h,            \* [Calls -> "idle" | "run" | "reading" | "closing" | "returned" | "panicked"]  RPC handler
          pos,          \* [Calls -> Nat] chunks delivered to the handler so far
          got,          \* [Calls -> Seq(<<owner, index>>)] what the handler received
          eof,          \* [Calls -> Nat] reads that returned EOF
          extra,        \* [Calls -> Nat] reads issued after the first EOF
          badAfterEof,  \* [Calls -> BOOLEAN] a read after EOF returned something other than EOF
          waitClosed,   \* [Calls -> Nat] number of close(wait) executed
          sticky,       \* [Calls -> "none" | "eof" | "err"] remembered first read error
          bodyClosed,   \* [Calls -> BOOLEAN] request body closed (by Close, or by net/http after the upload handler returned)
          closed,       \* [Calls -> BOOLEAN] handler called Close
          last          \* [Calls -> "none" | "data" | "eof" | "err"] result of the latest Read (output only; read by the trace specification)
vars == <<len, table, up, dec, h, pos, got, eof, extra, badAfterEof, waitClosed, sticky, bodyClosed, closed, last>>

Init == /\ len \in [Calls -> 0..MaxChunks]
        /\ table = {} /\ up = [c \in Calls |-> "none"] /\ dec = [c \in Calls |-> "none"]
        /\ h = [c \in Calls |-> "idle"] /\ pos = [c \in Calls |-> 0] /\ got = [c \in Calls |-> <<>>]
        /\ eof = [c \in Calls |-> 0] /\ extra = [c \in Calls |-> 0] /\ badAfterEof = [c \in Calls |-> FALSE]
        /\ waitClosed = [c \in Calls |-> 0] /\ sticky = [c \in Calls |-> "none"]
        /\ bodyClosed = [c \in Calls |-> FALSE] /\ closed = [c \in Calls |-> FALSE]
        /\ last = [c \in Calls |-> "none"]

\* upload handler: readersLk.Lock(); ch, found := readers[u]; if !found { make; store }
UpArrive(c) == /\ up[c] = "none" /\ up' = [up EXCEPT ![c] = "offering"] /\ table' = table \cup {c}
               /\ UNCHANGED <<len, dec, h, pos, got, eof, extra, badAfterEof, waitClosed, sticky, bodyClosed, closed, last>>
\* param decoder: same lookup-or-create, then `wr := <-ch`
DecArrive(c) == /\ dec[c] = "none" /\ dec' = [dec EXCEPT ![c] = "arrived"] /\ table' = table \cup {c}
                /\ UNCHANGED <<len, up, h, pos, got, eof, extra, badAfterEof, waitClosed, sticky, bodyClosed, closed, last>>
\* rendez-vous on the unbuffered channel: `ch <- wr` meets `<-ch`
HandOff(c) == /\ up[c] = "offering" /\ dec[c] = "arrived" /\ c \in table
              /\ up' = [up EXCEPT ![c] = "waiting"] /\ dec' = [dec EXCEPT ![c] = "got"]
              /\ UNCHANGED <<len, table, h, pos, got, eof, extra, badAfterEof, waitClosed, sticky, bodyClosed, closed, last>>
HStart(c) == /\ dec[c] = "got" /\ h[c] = "idle" /\ h' = [h EXCEPT ![c] = "run"]
             /\ UNCHANGED <<len, table, up, dec, pos, got, eof, extra, badAfterEof, waitClosed, sticky, bodyClosed, closed, last>>

CloseWait(c) == IF OnceClose /\ waitClosed[c] >= 1 THEN waitClosed ELSE [waitClosed EXCEPT ![c] = @ + 1]

\* one Read call: begin, effect (the linearization point inside waitReadCloser.Read), end
ReadBegin(c) == /\ h[c] = "run" /\ ((eof[c] = 0 /\ ~closed[c]) \/ extra[c] < MaxExtra)
                /\ h' = [h EXCEPT ![c] = "reading"]
                /\ extra' = IF eof[c] > 0 \/ closed[c] THEN [extra EXCEPT ![c] = @ + 1] ELSE extra
                /\ UNCHANGED <<len, table, up, dec, pos, got, eof, badAfterEof, waitClosed, sticky, bodyClosed, closed, last>>
ReadEffect(c) ==
  /\ h[c] = "reading"
  /\ IF StickyEOF /\ sticky[c] # "none"
     THEN \* remembered error is returned again, nothing else happens
          /\ eof' = IF sticky[c] = "eof" THEN [eof EXCEPT ![c] = @ + 1] ELSE eof
          /\ last' = [last EXCEPT ![c] = sticky[c]]
          /\ UNCHANGED <<pos, got, badAfterEof, waitClosed, sticky>>
     ELSE IF bodyClosed[c]
     THEN \* http: invalid Read on closed Body -> an error that is not EOF (an exhausted or empty body may
          \* still answer EOF, e.g. http.NoBody); close(wait) again
          \/ /\ badAfterEof' = [badAfterEof EXCEPT ![c] = eof[c] > 0]
             /\ waitClosed' = CloseWait(c) /\ last' = [last EXCEPT ![c] = "err"]
             /\ sticky' = [sticky EXCEPT ![c] = IF @ = "none" THEN "err" ELSE @]
             /\ UNCHANGED <<pos, got, eof>>
          \/ /\ pos[c] = len[c]
             /\ eof' = [eof EXCEPT ![c] = @ + 1] /\ last' = [last EXCEPT ![c] = "eof"]
             /\ waitClosed' = CloseWait(c)
             /\ sticky' = [sticky EXCEPT ![c] = IF @ = "none" THEN "eof" ELSE @]
             /\ UNCHANGED <<pos, got, badAfterEof>>
     ELSE IF pos[c] < len[c]
     THEN \/ /\ pos' = [pos EXCEPT ![c] = @ + 1]
             /\ got' = [got EXCEPT ![c] = Append(@, <<c, pos[c] + 1>>)] /\ last' = [last EXCEPT ![c] = "data"]
             /\ UNCHANGED <<eof, badAfterEof, waitClosed, sticky>>
          \/ \* io.Reader may return the final bytes together with io.EOF
             /\ pos[c] + 1 = len[c]
             /\ pos' = [pos EXCEPT ![c] = @ + 1]
             /\ got' = [got EXCEPT ![c] = Append(@, <<c, pos[c] + 1>>)] /\ last' = [last EXCEPT ![c] = "dataeof"]
             /\ eof' = [eof EXCEPT ![c] = @ + 1] /\ waitClosed' = CloseWait(c)
             /\ sticky' = [sticky EXCEPT ![c] = IF @ = "none" THEN "eof" ELSE @]
             /\ UNCHANGED badAfterEof
     ELSE \* EOF from the body: close(wait) (every time, unless guarded), remember it
          /\ eof' = [eof EXCEPT ![c] = @ + 1] /\ last' = [last EXCEPT ![c] = "eof"]
          /\ waitClosed' = CloseWait(c)
          /\ sticky' = [sticky EXCEPT ![c] = IF @ = "none" THEN "eof" ELSE @]
          /\ UNCHANGED <<pos, got, badAfterEof>>
  /\ h' = [h EXCEPT ![c] = IF ~OnceClose /\ waitClosed'[c] > 1 THEN "panicked" ELSE "run"]
  /\ UNCHANGED <<len, table, up, dec, extra, bodyClosed, closed>>
\* Close: close(wait); body.Close()
HClose(c) == /\ h[c] = "run" /\ ~closed[c]
             /\ waitClosed' = CloseWait(c) /\ closed' = [closed EXCEPT ![c] = TRUE]
             /\ bodyClosed' = [bodyClosed EXCEPT ![c] = TRUE]
             /\ h' = [h EXCEPT ![c] = IF ~OnceClose /\ waitClosed'[c] > 1 THEN "panicked" ELSE "run"]
             /\ UNCHANGED <<len, table, up, dec, pos, got, eof, extra, badAfterEof, sticky, last>>
\* the handler returns only after it has consumed the stream (EOF seen) or closed the reader
HReturn(c) == /\ h[c] = "run" /\ (eof[c] > 0 \/ closed[c])
              /\ h' = [h EXCEPT ![c] = "returned"]
              /\ UNCHANGED <<len, table, up, dec, pos, got, eof, extra, badAfterEof, waitClosed, sticky, bodyClosed, closed, last>>
\* upload handler: <-wr.wait; resp.WriteHeader(200); return  -> net/http closes the request body
UpReturn(c) == /\ up[c] = "waiting" /\ waitClosed[c] >= 1
               /\ up' = [up EXCEPT ![c] = "returned"] /\ bodyClosed' = [bodyClosed EXCEPT ![c] = TRUE]
               /\ UNCHANGED <<len, table, dec, h, pos, got, eof, extra, badAfterEof, waitClosed, sticky, closed, last>>

NextOf(c) == UpArrive(c) \/ DecArrive(c) \/ HandOff(c) \/ HStart(c) \/ ReadBegin(c) \/ ReadEffect(c)
                          \/ HClose(c) \/ HReturn(c) \/ UpReturn(c)
Next == \E c \in Calls : UpArrive(c) \/ DecArrive(c) \/ HandOff(c) \/ HStart(c) \/ ReadBegin(c) \/ ReadEffect(c)
                          \/ HClose(c) \/ HReturn(c) \/ UpReturn(c)
Spec == Init /\ [][Next]_vars /\ \A c \in Calls : WF_vars(NextOf(c))

(* ---------------- properties of the design ---------------- *)
NoDoubleClose  == \A c \in Calls : waitClosed[c] <= 1 /\ h[c] # "panicked"
EofConsistent  == \A c \in Calls : ~badAfterEof[c]
OwnBytesPrefix == \A c \in Calls : /\ Len(got[c]) <= len[c]
                                   /\ \A i \in 1..Len(got[c]) : got[c][i] = <<c, i>>
\* the upload completes only after the handler consumed the stream (saw EOF) or closed it
UploadAfterConsumption == \A c \in Calls : up[c] = "returned" => (eof[c] > 0 \/ closed[c] \/ h[c] = "reading")
\* a handler that reached EOF without closing has received everything
AllBytesAtEof  == \A c \in Calls : (eof[c] > 0 /\ ~closed[c]) => Len(got[c]) = len[c]
\* liveness (under fairness): every handler that starts returns and its upload completes, whichever side arrived first
Done(c) == h[c] \in {"returned", "panicked"} /\ up[c] = "returned"
Termination == <>[](\A c \in Calls : Done(c))
=============================================================================
