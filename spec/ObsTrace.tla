------------------------------ MODULE ObsTrace ------------------------------
(***************************************************************************)
(* Verdicts for the protocol properties: folds the API-level events of      *)
(* every recorded scenario (harness call wrappers, handlers, consumers,     *)
(* proxy, connection factory) with Obs!ObsStep and evaluates the property   *)
(* predicates of Obs after every event and at every quiescence point.       *)
(* Hook-level events ("h:...") are skipped here; WsRpcTrace binds them.     *)
(***************************************************************************)
EXTENDS Obs, Json, SequencesExt

Trace == ndJsonDeserialize("trace.ndjson")
VARIABLES l, obs, sc, viol
ovars == <<l, obs, sc, viol>>

\* hook-level events are skipped, except the few that carry facts no API-level event can (computed backoff delays)
IsHook(e) == SubSeq(e.ev, 1, 2) = "h:" /\ e.ev \notin {"h:backoff.next", "h:wl.enter", "h:wl.exit"}
Cfg(e) == [ObsInit EXCEPT !.cfgErrors = IF "errors" \in DOMAIN e.args THEN e.args.errors ELSE FALSE,
                          !.cfgNoReconnect = IF "noreconnect" \in DOMAIN e.args THEN e.args.noreconnect ELSE FALSE,
                          !.cfgHooks = IF "hooks" \in DOMAIN e THEN e.hooks ELSE FALSE,
                          !.cfgReverse = IF "reverse" \in DOMAIN e.args THEN e.args.reverse ELSE FALSE,
                          !.scName = IF "name" \in DOMAIN e THEN e.name ELSE ""]
Tag(s, V) == {<<s, v[1], v[2], v[3]>> : v \in V}

OInit == l = 1 /\ obs = ObsInit /\ sc = 0 /\ viol = {}
ONext == /\ l <= Len(Trace)
         /\ LET e == Trace[l] IN
            CASE e.ev = "reset"   -> obs' = Cfg(e) /\ sc' = e.sc /\ viol' = viol
              [] e.ev = "Quiesce" -> obs' = obs /\ sc' = sc /\ viol' = viol \cup Tag(sc, Quiet(obs, e) \cup Always(obs))
              [] IsHook(e)        -> UNCHANGED <<obs, sc, viol>>
              [] OTHER            -> LET o2 == ObsStep(obs, e) IN obs' = o2 /\ sc' = sc /\ viol' = viol \cup Tag(sc, Always(o2))
         /\ l' = l + 1
OSpec == OInit /\ [][ONext]_ovars
Report == l = Len(Trace) + 1 => JsonSerialize("result.json", [n |-> Len(Trace), consumed |-> l - 1, viol |-> SetToSeq(viol), drift |-> <<>>])
=============================================================================
