------------------------------ MODULE Builtins ------------------------------
(***************************************************************************)
(* Reaction of one endpoint (websocket.go: frameExecutor, handleFrame,      *)
(* cancelCtx, handleChanMessage, handleChanClose, handleResponse,           *)
(* handleCall) to a hostile frame, and the HTTP body size gate of           *)
(* handler.handleReader.  The model follows the Go statements, including    *)
(* slice indexing and map keying, so "index out of range" and "unhashable   *)
(* map key" are explicit crash outcomes of the step they would occur in     *)
(* (Guards = FALSE shows them; the repaired code is Guards = TRUE).         *)
(*                                                                         *)
(* Endpoint state before the frame:                                         *)
(*   role = "server": one handler running for request id LIVE (a number)    *)
(*   role = "client": one request in flight with id LIVE and one open       *)
(*                    channel subscription with channel id LIVE             *)
(***************************************************************************)
EXTENDS Naturals, Integers, Sequences, FiniteSets, TLC

CONSTANT Guards      \* TRUE: length / id-type guards present (current code)

Roles  == {"server", "client"}
\* first element x of a params array
Xs     == {"live", "livestr", "unknown", "neg", "frac", "huge", "str", "bool", "null", "arr", "obj"}
Ys     == {"num", "str", "null", "obj"}
Shapes == {"absent", "null", "empty", "object", "one", "two", "three"}
FrameIds == {"absent", "num", "str"}

BuiltinFrames == {f \in [kind : {"cancel", "chval", "chclose"}, shape : Shapes, x : Xs, y : Ys, fid : FrameIds] :
                    /\ f.shape \in {"absent", "null", "empty", "object"} => f.x = "null" /\ f.y = "null"
                    /\ f.shape = "one" => f.y = "null"
                    /\ f.shape = "three" => f.x \in {"live", "str"} /\ f.y = "num"}
RespFrames    == [kind : {"response"}, rid : {"live", "livestr", "unknown", "str", "absent", "null", "bool", "obj"},
                  body : {"result", "badresult", "error", "both", "neither", "badshape"}]
OtherFrames   == [kind : {"garbage"}, g : {"text", "empty", "binary", "array", "number", "badmethod", "badmeta", "deep", "truncated", "hugeid"}]
                 \cup [kind : {"call"}, c : {"valid", "unknown", "badspan", "objid", "boolid", "fracid", "emptymethod",
                                          \* a registered one-parameter method with every shape of the params member (request and notification)
                                          "p1absent", "p1null", "p1empty", "p1two", "p1object", "p1wrongtype", "p1absentnotif", "p1emptynotif", "p1string"}]
                 \cup [kind : {"wsviolation"}, v : {"rsv", "opcode", "badclose", "fragctl"}]
Frames == BuiltinFrames \cup RespFrames \cup OtherFrames

SizeRows == [kind : {"size"}, limit : {64, 1024, 65536}, rel : {"m1", "eq", "p1", "x2", "x100"}, pad : {"string", "trailws", "leadws", "junk"}]
FrameRows == [kind : {"frames"}, role : Roles, frames : UNION {[1..n -> Frames] : n \in 1..1}]

(* ------------------------------------------------------------------ *)
(* JSON decoding facts used by the Go code (encoding/json semantics)    *)
(* ------------------------------------------------------------------ *)
\* json.Unmarshal(params, &[]param): error for absent (empty input) and non-arrays; null leaves the slice nil
ParamsDecode(shape) == IF shape \in {"absent", "object"} THEN "err" ELSE "ok"
NParams(shape) == CASE shape \in {"absent", "null", "empty", "object"} -> 0 [] shape = "one" -> 1 [] shape = "two" -> 2 [] shape = "three" -> 3
\* json.Unmarshal(x, &uint64): only non-negative integers in range; null is a no-op (leaves 0)
ChidDecode(x) == CASE x \in {"live", "unknown"} -> "ok" [] x = "null" -> "zero" [] OTHER -> "err"
\* normalizeID(interface{}): string, float64, nil are fine, anything else is an error (and an unhashable key if used directly)
IdNormal(x)   == x \notin {"bool", "arr", "obj"}
Hashable(x)   == x \notin {"arr", "obj"}

(* ------------------------------------------------------------------ *)
(* Outcome of one frame                                                 *)
(*   crash     process would panic in the frame executor goroutine      *)
(*   cancelled the live handler's context is cancelled (server)         *)
(*   delivered a value reaches the live subscription (client)           *)
(*   closed    the live subscription is closed (client)                 *)
(*   completed the live in-flight call returns (client)                 *)
(*   connends  the connection is legitimately closed                    *)
(* ------------------------------------------------------------------ *)
Quiet == [crash |-> FALSE, cancelled |-> FALSE, delivered |-> FALSE, closed |-> FALSE, completed |-> FALSE, connends |-> FALSE]
Crash == [Quiet EXCEPT !.crash = TRUE]

CancelOutcome(role, f) ==
  IF ParamsDecode(f.shape) = "err" THEN Quiet
  ELSE IF NParams(f.shape) < 1 THEN (IF Guards THEN Quiet ELSE Crash)            \* params[0]
  ELSE IF ~IdNormal(f.x) THEN (IF Guards \/ Hashable(f.x) THEN Quiet ELSE Crash)  \* c.handling[id]
  ELSE IF role = "server" /\ f.x = "live" THEN [Quiet EXCEPT !.cancelled = TRUE]
  ELSE Quiet

ChValOutcome(role, f) ==
  IF ParamsDecode(f.shape) = "err" THEN Quiet
  ELSE IF NParams(f.shape) < 1 THEN (IF Guards THEN Quiet ELSE Crash)
  ELSE IF Guards /\ NParams(f.shape) < 2 THEN Quiet
  ELSE IF ChidDecode(f.x) # "ok" \/ f.x # "live" \/ role # "client" THEN Quiet   \* handler not found (no index needed)
  ELSE IF NParams(f.shape) < 2 THEN Crash                                        \* params[1]
  ELSE IF f.y \in {"num", "null"} THEN [Quiet EXCEPT !.delivered = TRUE]          \* null decodes to the zero value
  ELSE Quiet                                                                      \* value does not decode: logged, dropped

ChCloseOutcome(role, f) ==
  IF ParamsDecode(f.shape) = "err" THEN Quiet
  ELSE IF NParams(f.shape) < 1 THEN (IF Guards THEN Quiet ELSE Crash)
  ELSE IF ChidDecode(f.x) = "ok" /\ f.x = "live" /\ role = "client" THEN [Quiet EXCEPT !.closed = TRUE]
  ELSE Quiet

RespOutcome(role, f) ==
  IF f.rid \in {"bool", "obj"} \/ f.body = "badshape" THEN Quiet      \* frame rejected by frameExecutor
  ELSE IF role = "client" /\ f.rid = "live" THEN [Quiet EXCEPT !.completed = TRUE]
  ELSE Quiet

FrameOutcome(role, f) ==
  CASE f.kind = "cancel"      -> CancelOutcome(role, f)
    [] f.kind = "chval"       -> ChValOutcome(role, f)
    [] f.kind = "chclose"     -> ChCloseOutcome(role, f)
    [] f.kind = "response"    -> RespOutcome(role, f)
    [] f.kind = "garbage"     -> Quiet
    [] f.kind = "call"        -> Quiet
    [] f.kind = "wsviolation" -> [Quiet EXCEPT !.connends = TRUE]

Merge(a, b) == [crash |-> a.crash \/ b.crash, cancelled |-> a.cancelled \/ b.cancelled, delivered |-> a.delivered \/ b.delivered,
                closed |-> a.closed \/ b.closed, completed |-> a.completed \/ b.completed, connends |-> a.connends \/ b.connends]
RECURSIVE SeqOutcome(_, _, _)
SeqOutcome(role, fs, k) == IF k = 0 THEN Quiet ELSE Merge(SeqOutcome(role, fs, k - 1), FrameOutcome(role, fs[k]))

\* HTTP size gate: read at most limit+1 bytes; more than limit -> parse error, nothing runs
SizeOf(r) == CASE r.rel = "m1" -> r.limit - 1 [] r.rel = "eq" -> r.limit [] r.rel = "p1" -> r.limit + 1
               [] r.rel = "x2" -> 2 * r.limit [] r.rel = "x100" -> 100 * r.limit
SizeOutcome(r) == IF SizeOf(r) > r.limit THEN [accepted |-> FALSE, execs |-> 0] ELSE [accepted |-> TRUE, execs |-> 1]

Expected(r) == IF r.kind = "size" THEN SizeOutcome(r) ELSE SeqOutcome(r.role, r.frames, Len(r.frames))

(* ------------------------------------------------------------------ *)
(* The property                                                         *)
(*  observed for frame rows: alive, probeSame, probeFresh (booleans),   *)
(*  cancelled, delivered, closed, completed                              *)
(* ------------------------------------------------------------------ *)
HasViolation(r) == \E k \in 1..Len(r.frames) : r.frames[k].kind = "wsviolation"
\* the live call / stream may only be touched by a frame that targets it
Targets(r, what) == \E k \in 1..Len(r.frames) :
   LET f == r.frames[k] IN
   CASE what = "cancelled" -> r.role = "server" /\ f.kind = "cancel" /\ f.shape \in {"one", "two", "three"} /\ f.x = "live"
     [] what = "delivered" -> r.role = "client" /\ f.kind = "chval" /\ f.shape \in {"two", "three"} /\ f.x = "live"
     [] what = "closed"    -> r.role = "client" /\ f.kind = "chclose" /\ f.shape \in {"one", "two", "three"} /\ f.x = "live"
     [] what = "completed" -> r.role = "client" /\ f.kind = "response" /\ f.rid = "live"
P_C10_Frames(r, o) ==
  /\ o.alive                                              \* the hosting process survives
  /\ o.probeFresh                                         \* a fresh connection is served correctly afterwards
  /\ ~HasViolation(r) => o.probeSame                      \* and so is the same one, unless it was legitimately closed
  /\ ~HasViolation(r) =>
       /\ o.cancelled => Targets(r, "cancelled")
       /\ o.delivered => Targets(r, "delivered")
       /\ o.closed    => Targets(r, "closed")
       /\ o.completed => Targets(r, "completed")
P_C10_Size(r, o) ==
  IF SizeOf(r) > r.limit THEN ~o.accepted /\ o.execs = 0 /\ o.errreply
  ELSE o.accepted /\ o.execs = 1
P_C10(r, o) == IF r.kind = "size" THEN P_C10_Size(r, o) ELSE P_C10_Frames(r, o)

(* ------------------------------------------------------------------ *)
(* State machine: the frame executor pops one frame at a time           *)
(* ------------------------------------------------------------------ *)
CONSTANT RowSample
VARIABLES row, pc, k, acc
vars == <<row, pc, k, acc>>

Init == row \in RowSample /\ pc = "start" /\ k = 0 /\ acc = Quiet

SizeGate == /\ pc = "start" /\ row.kind = "size"
            /\ pc' = "done" /\ UNCHANGED <<row, k, acc>>
ExecPop  == /\ pc = "start" /\ row.kind = "frames" /\ k < Len(row.frames) /\ ~acc.crash
            /\ acc' = Merge(acc, FrameOutcome(row.role, row.frames[k + 1]))
            /\ k' = k + 1 /\ UNCHANGED <<row, pc>>
ExecEnd  == /\ pc = "start" /\ row.kind = "frames" /\ (k = Len(row.frames) \/ acc.crash)
            /\ pc' = "done" /\ UNCHANGED <<row, k, acc>>
Next == SizeGate \/ ExecPop \/ ExecEnd
Spec == Init /\ [][Next]_vars

NeverCrashes   == ~acc.crash
StepwiseAgrees == (pc = "done" /\ row.kind = "frames") => acc = Expected(row)
AsObs(a) == [alive |-> ~a.crash, probeSame |-> ~a.connends, probeFresh |-> TRUE, cancelled |-> a.cancelled,
             delivered |-> a.delivered, closed |-> a.closed, completed |-> a.completed]
ModelSatisfiesC10 == (pc = "done" /\ row.kind = "frames") => P_C10(row, AsObs(acc))
=============================================================================
