SPECIFICATION Spec
CONSTANTS
  Unary = {u1}
  Subs = {}
  Notifs = {}
  Retry = {r1}
  NVals = 0
  MaxGen = 2
  MaxFaults = 2
  AllowStop = FALSE
  AllowCancel = FALSE
  AllowHalf = FALSE
  Reconnect = TRUE
  MaxAttempts = 2
  FixExitOrder = TRUE
  FixReadErr = TRUE
  FixStaleDelete = TRUE
INVARIANT OwnResult
INVARIANT MailboxOwn
INVARIANT AtMostOnce
INVARIANT AnsweredExecuted
INVARIANT OwnValuesPrefix
INVARIANT BufferedOwn
INVARIANT NoLostCall
INVARIANT NoStaleOpenSink
CHECK_DEADLOCK FALSE
