SPECIFICATION Spec
CONSTANTS
  Unary = {}
  Subs = {s1}
  Notifs = {}
  Retry = {}
  NVals = 2
  MaxGen = 1
  MaxFaults = 1
  AllowStop = TRUE
  AllowCancel = TRUE
  AllowHalf = FALSE
  Reconnect = TRUE
  MaxAttempts = 2
  FixExitOrder = TRUE
  FixReadErr = TRUE
  FixStaleDelete = TRUE
INVARIANT TypeOK
INVARIANT OwnResult
INVARIANT MailboxOwn
INVARIANT AtMostOnce
INVARIANT OwnValuesPrefix
INVARIANT BufferedOwn
INVARIANT ClosedAfterExit
INVARIANT NoStaleOpenSink
INVARIANT NoWaiterAfterExit
CHECK_DEADLOCK FALSE
