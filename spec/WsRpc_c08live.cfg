SPECIFICATION FairSpec
CONSTANTS
  Unary = {}
  Subs = {s1}
  Notifs = {}
  Retry = {}
  NVals = 1
  MaxGen = 1
  MaxFaults = 1
  AllowStop = TRUE
  AllowCancel = FALSE
  AllowHalf = FALSE
  Reconnect = TRUE
  MaxAttempts = 2
  FixExitOrder = TRUE
  FixReadErr = TRUE
  FixStaleDelete = TRUE
INVARIANT OwnValuesPrefix
PROPERTY ChannelsTerminate
CHECK_DEADLOCK FALSE
