----------------------------- MODULE WriterLock -----------------------------
(***************************************************************************)
(* Every writer of one wsConn (websocket.go) around writeLk:                *)
(*   req      main loop / sendRequest          cancel   handleCtxAsync      *)
(*   resp     handler response, lazily acquired (lock held from the first   *)
(*            byte to the flush)                                             *)
(*   chanreg  channel registration reply       chanval  xrpc.ch.val         *)
(*   chanclose xrpc.ch.close                   ping     ping ticker         *)
(*   tclose   timeout close                    stop     close handshake     *)
(*   swap     connection swap on reconnect (changes conn)                   *)
(* A message may need several flushes (fragments).  LockFree is the set of  *)
(* writer kinds that (wrongly) skip the lock: {} is the code, any other     *)
(* value shows torn / interleaved messages (non-vacuity).                    *)
(***************************************************************************)
EXTENDS Naturals, Sequences, FiniteSets, TLC
CONSTANTS Writers,     \* writer kinds taking part in this configuration
          MaxFrags,    \* fragments per message
          LockFree     \* kinds that do not take writeLk

VARIABLES holder,   \* who holds writeLk ("none" or a writer)
          pc,       \* [Writers -> "idle" | "want" | "in" | "done"]
          frags,    \* [Writers -> fragments written so far]
          wire,     \* sequence of <<writer, fragment index, conn generation>>
          conn      \* connection generation
vars == <<holder, pc, frags, wire, conn>>

Init == holder = "none" /\ pc = [w \in Writers |-> "idle"] /\ frags = [w \in Writers |-> 0] /\ wire = <<>> /\ conn = 0

Want(w)    == /\ pc[w] = "idle" /\ pc' = [pc EXCEPT ![w] = "want"] /\ UNCHANGED <<holder, frags, wire, conn>>
Acquire(w) == /\ pc[w] = "want" /\ (w \in LockFree \/ holder = "none")
              /\ holder' = IF w \in LockFree THEN holder ELSE w
              /\ pc' = [pc EXCEPT ![w] = "in"] /\ UNCHANGED <<frags, wire, conn>>
\* one flush of the message (the swap writes nothing, it replaces the connection)
Flush(w)   == /\ pc[w] = "in" /\ frags[w] < MaxFrags /\ w # "swap"
              /\ wire' = Append(wire, <<w, frags[w] + 1, conn>>) /\ frags' = [frags EXCEPT ![w] = @ + 1]
              /\ UNCHANGED <<holder, pc, conn>>
Swap       == /\ "swap" \in Writers /\ pc["swap"] = "in" /\ frags["swap"] = 0
              /\ conn' = conn + 1 /\ frags' = [frags EXCEPT !["swap"] = MaxFrags] /\ UNCHANGED <<holder, pc, wire>>
Release(w) == /\ pc[w] = "in" /\ frags[w] = MaxFrags
              /\ holder' = IF holder = w THEN "none" ELSE holder
              /\ pc' = [pc EXCEPT ![w] = "done"] /\ UNCHANGED <<frags, wire, conn>>
Next == \E w \in Writers : Want(w) \/ Acquire(w) \/ Flush(w) \/ Release(w) \/ Swap
Spec == Init /\ [][Next]_vars

Inside == {w \in Writers : pc[w] = "in"}
MutualExclusion == Cardinality(Inside) <= 1
\* every message on the wire is contiguous, complete-in-order, and written to one connection generation
Contiguous == \A i \in 1..Len(wire) : wire[i][2] > 1 => (i > 1 /\ wire[i - 1][1] = wire[i][1] /\ wire[i - 1][2] = wire[i][2] - 1 /\ wire[i - 1][3] = wire[i][3])
ConnChangesOnlyInSwap == \A w \in Writers \ {"swap"} : pc[w] = "in" /\ frags[w] > 0 => wire[Len(wire)][3] = conn \/ \E x \in Inside : x = "swap"
=============================================================================
