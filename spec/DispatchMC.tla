---------------------------- MODULE DispatchMC ----------------------------
(* Model-checking entry point for Dispatch: the name-row universe (about 1.1 M rows) is sampled per         *)
(* dimension with TLC's RandomSubset (seeded by -seed); client and arity rows are always complete.          *)
EXTENDS Dispatch, Json, SequencesExt, Randomization
CONSTANTS NOrders, NAliases
SampledNameRows == [kind : {"name"}, fmt : Fmts, regs : RandomSubset(NOrders, Orders),
                    alias : RandomSubset(NAliases, Aliases) \cup {[has |-> FALSE, a |-> "", t |-> ""]}, req : Cand]
WithExp(r) == [row |-> r, exp |-> Expected(r)]
Sample == SampledNameRows
ASSUME ndJsonSerialize("rows.ndjson", SetToSeq({WithExp(r) : r \in Sample \cup ClientRows \cup ArityRows}))
=============================================================================
