SPECIFICATION OSpec
INVARIANT Report
CHECK_DEADLOCK FALSE
