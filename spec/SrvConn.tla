------------------------------- MODULE SrvConn -------------------------------
(***************************************************************************)
(* The server side of ONE accepted WebSocket connection of go-jsonrpc, for   *)
(* its whole life, implementation-shaped: one action per critical section /  *)
(* channel operation of the server-side wsConn (websocket.go), of the        *)
(* handler goroutines (handler.go handle) and of the channel forwarder        *)
(* (handleOutChans).  ServerConn.tla is the zoom on the teardown (lazy        *)
(* writer, goroutine accounting); this module adds everything before it:      *)
(* reading, the frame executor, the handling table and cancellation,          *)
(* responses, streaming.                                                      *)
(*                                                                         *)
(* goroutine        actions                                   code           *)
(* peer (env)       ClientSend ClientCancel PeerGone PeerCut  the client and the network            *)
(*                  NetDrop                                                                          *)
(* application      SrvCancel HReturn PClose                  the request context, handler bodies   *)
(* reader           RdNext RdErr RdGiveUp RdQueue RdFrameFail nextMessage / readFrame               *)
(* main loop        MainIncomingMsg MainIncomingClosed        handleWsConn select                   *)
(*                  MainCtxDone Exit0 ExitWait ExitChans      deferred steps in LIFO order           *)
(*                  ExitInFlight ExitHandling ExitExiting                                            *)
(*                  CloseSocket                               server.go handleWS: c.Close()          *)
(* frame executor   ExPop ExCall ExCancel ExExit              frameExecutor / handleCall / cancelCtx *)
(* handler (per id) HStart HReturn WriteResp HDone            handler.handle, done()                 *)
(*                  FwdSpawn HChanReg HChanRegFail            handleChanOut                          *)
(* forwarder        FwdRegWrite FwdTake FwdValWrite           handleOutChans                         *)
(*                  FwdCloseTake FwdClsWrite FwdExit                                                 *)
(*                                                                         *)
(* Frames to the server: <<"req",id>> <<"notif",id>> <<"cancel",id>>;        *)
(* frames written to the client (out): <<"resp",id,"val"|"err"|"chan">>      *)
(* <<"val",id,i>> <<"cls",id>>.                                              *)
(***************************************************************************)
EXTENDS Naturals, Sequences, FiniteSets, TLC

CONSTANTS Ids,            \* call tokens that may appear on this connection
          NVals,          \* values a streaming handler produces before it closes its channel
          MaxCancel,      \* cancel frames the peer may send per call
          StrictProducer, \* TRUE: the producer closes its channel only after NVals values or when its context is cancelled
          InitKind,       \* Ids -> {"unary","sub","notif","panic","pnotif","none"}
          Variant         \* "ok", or a seeded design defect (non-vacuity of the invariants): "cancel-any" (a cancel frame cancels every
                          \* handler), "no-exit-cancel" (the exit path forgets the handlers), "val-before-resp" (the forwarder forwards before
                          \* it has written the response that carries the channel id)

NotifKinds == {"notif", "pnotif"}

VARIABLES
  kind,                                                   \* what each token is (fixed during a behaviour)
  net, sentReq, cancelsSent, peer,                        \* peer and network: peer \in {"up","closed","lost"}
  rd, rdMsg, incClosed, readErr, execQ, ex, exec,         \* reader, executor
  main, connCtx, exiting, sockClosed, closeSent, wfail,   \* main loop and connection (wfail: a write has failed; write errors are sticky)
  handling, hst, hctx, cancelRecv,                        \* handling table, handler goroutines, their contexts
  fwd, chans, chanCtr, taken, pclosed, fclosed,           \* forwarder
  out                                                     \* frames written to the peer, in order
envVars  == <<net, sentReq, cancelsSent, peer>>
rdVars   == <<rd, rdMsg, incClosed, readErr, execQ, ex, exec>>
mainVars == <<main, connCtx, exiting, sockClosed, closeSent, wfail>>
hVars    == <<handling, hst, hctx, cancelRecv>>
fVars    == <<fwd, chans, chanCtr, taken, pclosed, fclosed>>
vars == <<kind, envVars, rdVars, mainVars, hVars, fVars, out>>

Init ==
  /\ kind = InitKind
  /\ net = <<>> /\ sentReq = {} /\ cancelsSent = [i \in Ids |-> 0] /\ peer = "up"
  /\ rd = "wait" /\ rdMsg = <<"none">> /\ incClosed = FALSE /\ readErr = FALSE /\ execQ = <<>> /\ ex = <<"idle">> /\ exec = "run"
  /\ main = "select" /\ connCtx = "live" /\ exiting = FALSE /\ sockClosed = FALSE /\ closeSent = FALSE /\ wfail = FALSE
  /\ handling = {} /\ hst = [i \in Ids |-> "none"] /\ hctx = [i \in Ids |-> "none"] /\ cancelRecv = {}
  /\ fwd = <<"none">> /\ chans = {} /\ chanCtr = 0 /\ taken = [i \in Ids |-> 0] /\ pclosed = {} /\ fclosed = {}
  /\ out = <<>>

WriterOK == ~sockClosed /\ ~closeSent
\* a write succeeds on a live connection, fails once the socket is closed or the close frame was sent, and may go either way
\* when the peer is gone but the server has not noticed yet (kernel buffers / broken pipe)
WriteMay == IF ~WriterOK \/ wfail THEN {FALSE} ELSE IF peer = "up" THEN {TRUE} ELSE {TRUE, FALSE}
Written(f, ok) == IF ok THEN Append(out, f) ELSE out
Fail(ok) == wfail \/ ~ok

(* ================================ peer and network ================================ *)
ClientSend(i) == /\ kind[i] # "none" /\ i \notin sentReq /\ peer = "up"
                 /\ net' = Append(net, <<IF kind[i] \in NotifKinds THEN "notif" ELSE "req", i>>) /\ sentReq' = sentReq \cup {i}
                 /\ UNCHANGED <<kind, cancelsSent, peer, rdVars, mainVars, hVars, fVars, out>>
\* (the peer may name any id: one it never sent, one of an earlier connection, one that is finished)
ClientCancel(i) == /\ cancelsSent[i] < MaxCancel /\ peer = "up"
                   /\ net' = Append(net, <<"cancel", i>>) /\ cancelsSent' = [cancelsSent EXCEPT ![i] = @ + 1]
                   /\ UNCHANGED <<kind, sentReq, peer, rdVars, mainVars, hVars, fVars, out>>
\* the peer goes away: with a close frame ("closed": the server's close handler answers it, no writer afterwards) or without
PeerGone(how) == /\ peer = "up" /\ how \in {"closed", "lost"} /\ peer' = how
                 /\ UNCHANGED <<kind, net, sentReq, cancelsSent, rdVars, mainVars, hVars, fVars, out>>
\* the link dies inside a frame: the server gets the beginning of a message and then the end of the stream
PeerCut == /\ peer = "up" /\ peer' = "lost" /\ net' = Append(net, <<"trunc">>)
           /\ UNCHANGED <<kind, sentReq, cancelsSent, rdVars, mainVars, hVars, fVars, out>>
\* frames in flight when the link dies may be lost
NetDrop == /\ peer # "up" /\ Len(net) > 0 /\ net' = Tail(net)
           /\ UNCHANGED <<kind, sentReq, cancelsSent, peer, rdVars, mainVars, hVars, fVars, out>>

(* ================================ reader ================================ *)
\* nextMessage: NextReader returned a data message; about to hand it to the main loop
RdNext == /\ rd = "wait" /\ Len(net) > 0 /\ ~sockClosed
          /\ rd' = "hasmsg" /\ rdMsg' = Head(net) /\ net' = Tail(net)
          /\ UNCHANGED <<kind, sentReq, cancelsSent, peer, incClosed, readErr, execQ, ex, exec, mainVars, hVars, fVars, out>>
\* NextReader failed (peer gone and nothing left to read, or the socket was closed under it): incomingErr set, close(incoming)
RdErr == /\ rd = "wait" /\ (sockClosed \/ (peer # "up" /\ net = <<>>))
         /\ rd' = "gone" /\ incClosed' = TRUE /\ closeSent' = (closeSent \/ (peer = "closed" /\ ~sockClosed))
         /\ UNCHANGED <<kind, envVars, rdMsg, readErr, execQ, ex, exec, main, connCtx, exiting, sockClosed, wfail, hVars, fVars, out>>
\* select { case c.incoming <- r: / case <-c.exiting: } (repair 0025104): the loop is gone, the reader lets go
RdGiveUp == /\ rd = "hasmsg" /\ exiting /\ rd' = "gone" /\ rdMsg' = <<"none">>
            /\ UNCHANGED <<kind, envVars, incClosed, readErr, execQ, ex, exec, mainVars, hVars, fVars, out>>
\* readFrame: the whole frame was read; c.frameExecQueue <- buf; then the next nextMessage is started
RdQueue == /\ rd = "reading" /\ rdMsg # <<"trunc">> /\ execQ' = Append(execQ, rdMsg) /\ rd' = "wait" /\ rdMsg' = <<"none">>
           /\ UNCHANGED <<kind, envVars, incClosed, readErr, ex, exec, mainVars, hVars, fVars, out>>
\* readFrame: ReadAll failed in the middle of the frame: incomingErr set, the error goes to the main loop, no further read
RdFrameFail == /\ rd = "reading" /\ rdMsg = <<"trunc">> /\ rd' = "gone" /\ rdMsg' = <<"none">> /\ readErr' = TRUE
               /\ UNCHANGED <<kind, envVars, incClosed, execQ, ex, exec, mainVars, hVars, fVars, out>>

(* ================================ main loop ================================ *)
MainIncomingMsg == /\ main = "select" /\ rd = "hasmsg" /\ rd' = "reading"
                   /\ UNCHANGED <<kind, envVars, rdMsg, incClosed, readErr, execQ, ex, exec, mainVars, hVars, fVars, out>>
\* incoming closed: a server-side connection has no factory, the loop returns
MainIncomingClosed == /\ main = "select" /\ incClosed /\ main' = "exit0"
                      /\ UNCHANGED <<kind, envVars, rdVars, connCtx, exiting, sockClosed, closeSent, wfail, hVars, fVars, out>>
\* case rerr := <-c.readError: no factory on the server side, the loop returns
MainReadError == /\ main = "select" /\ readErr /\ main' = "exit0"
                 /\ UNCHANGED <<kind, envVars, rdVars, connCtx, exiting, sockClosed, closeSent, wfail, hVars, fVars, out>>
MainCtxDone == /\ main = "select" /\ connCtx = "cancelled" /\ main' = "exit0"
               /\ UNCHANGED <<kind, envVars, rdVars, connCtx, exiting, sockClosed, closeSent, wfail, hVars, fVars, out>>
\* every handler context derives from the connection's
CancelAll == [i \in Ids |-> IF hctx[i] = "live" /\ Variant # "no-exit-cancel" THEN "cancelled" ELSE hctx[i]]
\* the application cancels the request context the connection was served under
SrvCancel == /\ connCtx = "live" /\ connCtx' = "cancelled" /\ hctx' = CancelAll
             /\ UNCHANGED <<kind, envVars, rdVars, main, exiting, sockClosed, closeSent, wfail, handling, hst, cancelRecv, fVars, out>>
\* deferred steps, LIFO.  cancel(); <-execDone (repair 9e0df5e)
Exit0 == /\ main = "exit0" /\ main' = "exit-wait" /\ connCtx' = "cancelled" /\ hctx' = CancelAll
         /\ UNCHANGED <<kind, envVars, rdVars, exiting, sockClosed, closeSent, wfail, handling, hst, cancelRecv, fVars, out>>
ExitWait == /\ main = "exit-wait" /\ exec = "gone" /\ main' = "exit-chans"
            /\ UNCHANGED <<kind, envVars, rdVars, connCtx, exiting, sockClosed, closeSent, wfail, hVars, fVars, out>>
\* stopPings; closeChans (client-side tables: nothing on a server without reverse calls)
ExitChans == /\ main = "exit-chans" /\ main' = "exit-inflight"
             /\ UNCHANGED <<kind, envVars, rdVars, connCtx, exiting, sockClosed, closeSent, wfail, hVars, fVars, out>>
ExitInFlight == /\ main = "exit-inflight" /\ main' = "exit-handling"
                /\ UNCHANGED <<kind, envVars, rdVars, connCtx, exiting, sockClosed, closeSent, wfail, hVars, fVars, out>>
\* closeInFlight, second half: every registered cancel function is called, the table emptied
ExitHandling == /\ main = "exit-handling" /\ main' = "exit-exiting"
                /\ hctx' = [i \in Ids |-> IF i \in handling /\ hctx[i] = "live" /\ Variant # "no-exit-cancel" THEN "cancelled" ELSE hctx[i]] /\ handling' = {}
                /\ UNCHANGED <<kind, envVars, rdVars, connCtx, exiting, sockClosed, closeSent, wfail, hst, cancelRecv, fVars, out>>
ExitExiting == /\ main = "exit-exiting" /\ exiting' = TRUE /\ main' = "returned"
               /\ UNCHANGED <<kind, envVars, rdVars, connCtx, sockClosed, closeSent, wfail, hVars, fVars, out>>
\* handleWS: c.Close() once handleWsConn has returned
CloseSocket == /\ main = "returned" /\ ~sockClosed /\ sockClosed' = TRUE
               /\ UNCHANGED <<kind, envVars, rdVars, main, connCtx, exiting, closeSent, wfail, hVars, fVars, out>>

(* ================================ frame executor ================================ *)
ExPop == /\ exec = "run" /\ ex = <<"idle">> /\ Len(execQ) > 0
         /\ ex' = <<"popped", Head(execQ)>> /\ execQ' = Tail(execQ)
         /\ UNCHANGED <<kind, envVars, rd, rdMsg, incClosed, readErr, exec, mainVars, hVars, fVars, out>>
\* case <-ctx.Done(): return
ExExit == /\ exec = "run" /\ ex = <<"idle">> /\ connCtx = "cancelled" /\ exec' = "gone"
          /\ UNCHANGED <<kind, envVars, rd, rdMsg, incClosed, readErr, execQ, ex, mainVars, hVars, fVars, out>>
\* handleCall: ctx, cancel := WithCancel(ctx); handling[id] = cancel (requests only); go handler.handle(...)
ExCall == /\ ex[1] = "popped" /\ ex[2][1] \in {"req", "notif"}
          /\ LET i == ex[2][2] IN
             /\ handling' = IF ex[2][1] = "req" THEN handling \cup {i} ELSE handling
             /\ hst' = [hst EXCEPT ![i] = "spawned"]
             /\ hctx' = [hctx EXCEPT ![i] = IF connCtx = "cancelled" THEN "cancelled" ELSE "live"]
          /\ ex' = <<"idle">>
          /\ UNCHANGED <<kind, envVars, rd, rdMsg, incClosed, readErr, execQ, exec, mainVars, cancelRecv, fVars, out>>
\* cancelCtx: under handlingLk, look the id up and call its cancel function
ExCancel == /\ ex[1] = "popped" /\ ex[2][1] = "cancel"
            /\ LET i == ex[2][2] IN
               /\ hctx' = IF Variant = "cancel-any" THEN [j \in Ids |-> IF j \in handling /\ hctx[j] = "live" THEN "cancelled" ELSE hctx[j]]
                          ELSE IF i \in handling /\ hctx[i] = "live" THEN [hctx EXCEPT ![i] = "cancelled"] ELSE hctx
               /\ cancelRecv' = cancelRecv \cup {i}
            /\ ex' = <<"idle">>
            /\ UNCHANGED <<kind, envVars, rd, rdMsg, incClosed, readErr, execQ, exec, mainVars, handling, hst, fVars, out>>

(* ================================ handler goroutines ================================ *)
HStart(i) == /\ hst[i] = "spawned" /\ hst' = [hst EXCEPT ![i] = "running"]
             /\ UNCHANGED <<kind, envVars, rdVars, mainVars, handling, hctx, cancelRecv, fVars, out>>
\* the handler body returns (a value, an error, a channel) or panics; a notification is finished with that: done(false)
HReturn(i) == /\ hst[i] = "running"
              /\ IF kind[i] \in NotifKinds
                 THEN /\ hst' = [hst EXCEPT ![i] = "done"] /\ hctx' = [hctx EXCEPT ![i] = "cancelled"]
                 ELSE /\ hst' = [hst EXCEPT ![i] = IF kind[i] = "sub" THEN "chanret" ELSE "returned"] /\ UNCHANGED hctx
              /\ UNCHANGED <<kind, envVars, rdVars, mainVars, handling, cancelRecv, fVars, out>>
\* the response (result, or error for a panic / a failed channel registration) is written in one writeLk section
RespKinds(i) == IF kind[i] = "unary" THEN {"val", "err"} ELSE {"err"}       \* a handler may return an error; a panic always yields one
WriteResp(i) == /\ hst[i] = "returned" /\ (\E k \in RespKinds(i), ok \in WriteMay : out' = Written(<<"resp", i, k>>, ok) /\ wfail' = Fail(ok))
                /\ hst' = [hst EXCEPT ![i] = "written"]
                /\ UNCHANGED <<kind, envVars, rdVars, main, connCtx, exiting, sockClosed, closeSent, handling, hctx, cancelRecv, fVars>>
\* done(keepCtx): under handlingLk; a channel-returning method keeps its context and its table entry
HDone(i) == /\ hst[i] = "written" /\ hst' = [hst EXCEPT ![i] = "done"]
            /\ IF kind[i] = "sub" THEN UNCHANGED <<handling, hctx>>
               ELSE /\ handling' = handling \ {i} /\ hctx' = [hctx EXCEPT ![i] = "cancelled"]
            /\ UNCHANGED <<kind, envVars, rdVars, mainVars, cancelRecv, fVars, out>>
\* handleChanOut: rendez-vous with the forwarder on registerCh (the forwarder is started by the first registration) ...
\* spawnOutChanHandlerOnce.Do(go handleOutChans): the first channel-returning handler starts the forwarder, also on a
\* connection that is already exiting (the forwarder then leaves at once)
FwdSpawn(i) == /\ hst[i] = "chanret" /\ fwd = <<"none">> /\ fwd' = <<"idle">>
               /\ UNCHANGED <<kind, envVars, rdVars, mainVars, hVars, chans, chanCtr, taken, pclosed, fclosed, out>>
HChanReg(i) == /\ hst[i] = "chanret" /\ fwd = <<"idle">>
               /\ chanCtr' = chanCtr + 1 /\ chans' = chans \cup {<<chanCtr + 1, i>>} /\ fwd' = <<"reg", i>>
               /\ hst' = [hst EXCEPT ![i] = "done"]
               /\ UNCHANGED <<kind, envVars, rdVars, mainVars, handling, hctx, cancelRecv, taken, pclosed, fclosed, out>>
\* ... or case <-c.exiting: "connection closing" -> error response
HChanRegFail(i) == /\ hst[i] = "chanret" /\ fwd # <<"none">> /\ exiting /\ hst' = [hst EXCEPT ![i] = "returned"]
                   /\ UNCHANGED <<kind, envVars, rdVars, mainVars, handling, hctx, cancelRecv, fVars, out>>
\* the application side of a stream: the producer closes the channel (all values sent, or its context was cancelled)
PClose(i) == /\ (\E c \in chans : c[2] = i) /\ i \notin pclosed
             /\ (StrictProducer => (taken[i] = NVals \/ hctx[i] = "cancelled"))
             /\ pclosed' = pclosed \cup {i}
             /\ UNCHANGED <<kind, envVars, rdVars, mainVars, hVars, fwd, chans, chanCtr, taken, fclosed, out>>

(* ================================ channel forwarder ================================ *)
\* the response carrying the channel id is written by the forwarder, before it forwards anything of that channel
FwdRegWrite == /\ fwd[1] = "reg" /\ (\E ok \in WriteMay : out' = Written(<<"resp", fwd[2], "chan">>, ok) /\ wfail' = Fail(ok)) /\ fwd' = <<"idle">>
               /\ UNCHANGED <<kind, envVars, rdVars, main, connCtx, exiting, sockClosed, closeSent, hVars, chans, chanCtr, taken, pclosed, fclosed>>
\* a value is received from a registered channel
\* (also after the producer closed the channel: values it had sent before are still delivered; never after the forwarder saw the close)
FwdTake(i) == /\ (fwd = <<"idle">> \/ (Variant = "val-before-resp" /\ fwd[1] = "reg")) /\ (\E c \in chans : c[2] = i) /\ i \notin fclosed /\ taken[i] < NVals
              /\ taken' = [taken EXCEPT ![i] = @ + 1] /\ fwd' = <<"val", i, taken[i] + 1>>
              /\ UNCHANGED <<kind, envVars, rdVars, mainVars, hVars, chans, chanCtr, pclosed, fclosed, out>>
\* sendRequest(xrpc.ch.val): a failed write ends the forwarder
FwdValWrite == /\ fwd[1] = "val" /\ (\E ok \in WriteMay : out' = Written(<<"val", fwd[2], fwd[3]>>, ok) /\ wfail' = Fail(ok) /\ fwd' = IF ok THEN <<"idle">> ELSE <<"gone">>)
               /\ UNCHANGED <<kind, envVars, rdVars, main, connCtx, exiting, sockClosed, closeSent, hVars, chans, chanCtr, taken, pclosed, fclosed>>
\* a registered channel was closed by the application
FwdCloseTake(i) == /\ fwd = <<"idle">> /\ i \in pclosed /\ i \notin fclosed /\ (\E c \in chans : c[2] = i)
                   /\ fclosed' = fclosed \cup {i} /\ fwd' = <<"cls", i>>
                   /\ UNCHANGED <<kind, envVars, rdVars, mainVars, hVars, chans, chanCtr, taken, pclosed, out>>
FwdClsWrite == /\ fwd[1] = "cls" /\ (\E ok \in WriteMay : out' = Written(<<"cls", fwd[2]>>, ok) /\ wfail' = Fail(ok)) /\ fwd' = <<"idle">>
               /\ UNCHANGED <<kind, envVars, rdVars, main, connCtx, exiting, sockClosed, closeSent, hVars, chans, chanCtr, taken, pclosed, fclosed>>
\* exiting closed
FwdExit == /\ fwd = <<"idle">> /\ exiting /\ fwd' = <<"gone">>
           /\ UNCHANGED <<kind, envVars, rdVars, mainVars, hVars, chans, chanCtr, taken, pclosed, fclosed, out>>

LibNext ==
  \/ RdNext \/ RdErr \/ RdGiveUp \/ RdQueue \/ RdFrameFail
  \/ MainIncomingMsg \/ MainIncomingClosed \/ MainReadError \/ MainCtxDone \/ Exit0 \/ ExitWait \/ ExitChans \/ ExitInFlight \/ ExitHandling \/ ExitExiting \/ CloseSocket
  \/ ExPop \/ ExExit \/ ExCall \/ ExCancel
  \/ \E i \in Ids : HStart(i) \/ WriteResp(i) \/ HDone(i) \/ FwdSpawn(i) \/ HChanReg(i) \/ HChanRegFail(i) \/ FwdTake(i) \/ FwdCloseTake(i)
  \/ FwdRegWrite \/ FwdValWrite \/ FwdClsWrite \/ FwdExit
EnvNext ==
  \/ \E i \in Ids : ClientSend(i) \/ ClientCancel(i) \/ HReturn(i) \/ PClose(i)
  \/ \E how \in {"closed", "lost"} : PeerGone(how)
  \/ NetDrop \/ PeerCut \/ SrvCancel
Next == LibNext \/ EnvNext
Spec == Init /\ [][Next]_vars
\* fairness of the library, of handler bodies once their context is cancelled, and of producers
FairSpec == /\ Spec /\ WF_vars(LibNext)
            /\ \A i \in Ids : WF_vars(hctx[i] = "cancelled" /\ HReturn(i)) /\ WF_vars(PClose(i))

(* ================================ properties ================================ *)
TypeOK == /\ main \in {"select", "exit0", "exit-wait", "exit-chans", "exit-inflight", "exit-handling", "exit-exiting", "returned"}
          /\ rd \in {"wait", "hasmsg", "reading", "gone"} /\ exec \in {"run", "gone"} /\ peer \in {"up", "closed", "lost"}
          /\ handling \subseteq Ids /\ \A i \in Ids : hctx[i] \in {"none", "live", "cancelled"}
OutIdx(P(_)) == {n \in 1..Len(out) : P(out[n])}
\* C06: a handler's context is cancelled only for a reason: a cancel frame naming it, the end of the connection, or its own completion
CancelHasCause == \A i \in Ids : hctx[i] = "cancelled" =>
                     \/ i \in cancelRecv \/ connCtx = "cancelled" \/ main # "select" \/ hst[i] = "done"
\* C06: a cancel frame cancels exactly the call it names (the only per-call cancellation while the connection is healthy)
CancelExact == \A i \in Ids : (hctx[i] = "cancelled" /\ connCtx = "live" /\ main = "select" /\ hst[i] # "done") => i \in cancelRecv
\* C02/C09: at most one response per request, none for a notification, only for requests that were received
RespOnce == \A i \in Ids : /\ Cardinality(OutIdx(LAMBDA f : f[1] = "resp" /\ f[2] = i)) <= 1
                           /\ (kind[i] \in NotifKinds => OutIdx(LAMBDA f : f[1] = "resp" /\ f[2] = i) = {})
                           /\ (OutIdx(LAMBDA f : f[2] = i) # {} => hst[i] # "none")
\* C13: a panicking handler produces an error response for its own call; every other call gets the response of its own kind
RespKindOK == \A n \in 1..Len(out) : out[n][1] = "resp" =>
                 LET i == out[n][2] IN
                 out[n][3] \in (CASE kind[i] = "unary" -> {"val", "err"} [] kind[i] = "panic" -> {"err"} [] kind[i] = "sub" -> {"chan", "err"} [] OTHER -> {})
\* C07: per stream: the response carrying the channel id first, then values 1..k in order without gaps, then at most one close, nothing after it
StreamOrdered == \A i \in Ids : kind[i] = "sub" =>
                    LET S == SelectSeq(out, LAMBDA f : f[2] = i) IN
                    \A n \in 1..Len(S) :
                       /\ (n = 1) = (S[n][1] = "resp")
                       /\ S[n][1] = "val" => (n >= 2 /\ S[n][3] = n - 1 /\ S[1][3] = "chan")
                       /\ S[n][1] = "cls" => (n = Len(S) /\ S[1][3] = "chan")
\* C08 (server half): with a strict producer a stream that was closed while its context was live carries all its values
StreamComplete == StrictProducer => \A i \in Ids : (i \in fclosed /\ hctx[i] = "live") => taken[i] = NVals
\* C15: once handleWsConn has returned nothing of the connection's is left registered and every handler context is cancelled
ReturnedClean == main = "returned" => /\ handling = {} /\ exec = "gone" /\ connCtx = "cancelled"
                                      /\ \A i \in Ids : hctx[i] # "live"
\* no write reaches the peer after the socket was closed
Safety == TypeOK /\ CancelHasCause /\ CancelExact /\ RespOnce /\ RespKindOK /\ StreamOrdered /\ StreamComplete /\ ReturnedClean
\* C15 (liveness): once the peer is gone or the context cancelled, every goroutine of the connection ends
Ended == peer # "up" \/ connCtx = "cancelled"
AllGone == /\ main = "returned" /\ sockClosed /\ exec = "gone" /\ rd = "gone" /\ fwd \in {<<"none">>, <<"gone">>}
           /\ \A i \in Ids : hst[i] \in {"none", "done"}
EventuallyGone == Ended ~> AllGone
\* C06 (liveness): a cancel frame for a running handler is eventually acted upon (or the handler is done first)
CancelActedUpon == \A i \in Ids : (\E n \in 1..Len(net) : net[n] = <<"cancel", i>>) ~> (i \in cancelRecv \/ peer # "up" \/ connCtx = "cancelled" \/ main # "select")
=============================================================================
