SPECIFICATION TSpec
CONSTANTS
  Calls = {c1, c2, c3, c4}
  MaxChunks = 2
  MaxExtra = 1000000
  OnceClose = TRUE
  StickyEOF = TRUE
INVARIANT Report
INVARIANT TraceInvs
POSTCONDITION Post
CHECK_DEADLOCK FALSE
