SPECIFICATION FairSpec
CONSTANTS
  Ids = {1, 2}
  NVals = 2
  MaxCancel = 1
  StrictProducer = TRUE
  Variant = "ok"
  InitKind <- MCKindUS
PROPERTY EventuallyGone
PROPERTY CancelActedUpon
CHECK_DEADLOCK FALSE
