SPECIFICATION Spec
CONSTANTS
  Replayable = FALSE
  RetryTagged = FALSE
  MaxAttempts = 3
INVARIANTS AtMostOnce AnsweredExecuted
CHECK_DEADLOCK FALSE
