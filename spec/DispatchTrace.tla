--------------------------- MODULE DispatchTrace ---------------------------
(* Conformance + verdicts for C12: every trace line is one Dispatch row executed against a real RPCServer    *)
(* (and, for client rows, a real custom-transport client). The Dispatch state machine is run on the row;     *)
(* at pc = "done" the model outcome is compared with the observed one and P_C12 is evaluated on the latter.  *)
EXTENDS Dispatch, Json

Trace == ndJsonDeserialize("trace.ndjson")
VARIABLES l, viol, drift
tvars == <<row, pc, tbl, i, out, l, viol, drift>>

S(seq) == {seq[j] : j \in DOMAIN seq}
RowOf(e) ==
  CASE e.row.kind = "name"   -> [kind |-> "name", fmt |-> e.row.fmt, regs |-> e.row.regs, alias |-> e.row.alias, req |-> e.row.req]
    [] e.row.kind = "client" -> [kind |-> "client", tagged |-> e.row.tagged, fmtS |-> e.row.fmtS, fmtC |-> e.row.fmtC, ns |-> e.row.ns, m |-> e.row.m]
    [] e.row.kind = "arity"  -> [kind |-> "arity", k |-> e.row.k, shape |-> e.row.shape, n |-> e.row.n, bad |-> S(e.row.bad), ctx |-> e.row.ctx]
ObsOf(e) ==
  IF e.row.kind = "arity" THEN [ran |-> e.obs.ran, res |-> e.obs.res]
  ELSE [ran |-> e.obs.ran, code |-> e.obs.code]

Load(j) == /\ row' = RowOf(Trace[j]) /\ pc' = "start" /\ tbl' = [x \in {} |-> None] /\ i' = 0 /\ out' = NoOut

TInit == /\ l = 1 /\ viol = <<>> /\ drift = <<>>
         /\ IF Len(Trace) >= 1 THEN row = RowOf(Trace[1]) /\ pc = "start" ELSE row = [kind |-> "none"] /\ pc = "end"
         /\ tbl = [x \in {} |-> None] /\ i = 0 /\ out = NoOut
TStep == /\ pc \notin {"done", "end"} /\ Next /\ UNCHANGED <<l, viol, drift>>
TCheck == /\ pc = "done"
          /\ LET o == ObsOf(Trace[l]) IN
             /\ viol'  = IF P_C12(row, o) THEN viol ELSE Append(viol, l)
             /\ drift' = IF o = out THEN drift ELSE Append(drift, l)
          /\ l' = l + 1
          /\ IF l + 1 <= Len(Trace) THEN Load(l + 1) ELSE pc' = "end" /\ UNCHANGED <<row, tbl, i, out>>
TNext == TStep \/ TCheck
TSpec == TInit /\ [][TNext]_tvars
Report == pc = "end" => JsonSerialize("result.json", [n |-> Len(Trace), consumed |-> l - 1, viol |-> viol, drift |-> drift])
=============================================================================
