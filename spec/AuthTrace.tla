----------------------------- MODULE AuthTrace -----------------------------
(***************************************************************************)
(* Conformance + verdicts for C19.  Every line of trace.ndjson is one row   *)
(* of the Auth table executed against the real auth package:                *)
(*    {"row": <abstract input>, "obs": <abstracted real outcome>, "n": k}   *)
(* For each line the Auth state machine is run on the row (its own actions, *)
(* unchanged); at pc = "done" the model outcome is compared with the        *)
(* observed one (conformance -> drift) and P_C19 is evaluated on the        *)
(* observed outcome (verdict -> viol).  The result is written to            *)
(* result.json when the whole trace has been consumed.                      *)
(***************************************************************************)
EXTENDS Auth, Json

Trace == ndJsonDeserialize("trace.ndjson")

VARIABLES l, viol, drift
tvars == <<row, pc, tok, out, l, viol, drift>>

S(seq) == {seq[i] : i \in DOMAIN seq}
Verd(v) == [ok |-> v.ok, perms |-> S(v.perms)]
RowOf(e) ==
  IF e.row.kind = "proxy"
  THEN [kind |-> "proxy", caller |-> S(e.row.caller), dflt |-> S(e.row.dflt),
        attached |-> e.row.attached, required |-> e.row.required, shape |-> e.row.shape]
  ELSE [kind |-> "handler", hdr |-> e.row.hdr, query |-> e.row.query,
        vh |-> Verd(e.row.vh), vq |-> Verd(e.row.vq)]
ObsOf(e) ==
  IF e.row.kind = "proxy"
  THEN [ran |-> e.obs.ran, err |-> e.obs.err, val |-> e.obs.val]
  ELSE [status |-> e.obs.status, next |-> e.obs.next, attached |-> e.obs.attached,
        perms |-> S(e.obs.perms), verified |-> e.obs.verified]

Load(i) == /\ row' = RowOf(Trace[i]) /\ pc' = "start" /\ tok' = NoTok /\ out' = NoOut

TInit == /\ l = 1 /\ viol = <<>> /\ drift = <<>>
         /\ IF Len(Trace) >= 1
            THEN row = RowOf(Trace[1]) /\ pc = "start"
            ELSE row = [kind |-> "none"] /\ pc = "end"
         /\ tok = NoTok /\ out = NoOut

\* the specification's own actions do the work
TStep == /\ pc \notin {"done", "end"} /\ Next /\ UNCHANGED <<l, viol, drift>>

TCheck == /\ pc = "done"
          /\ LET o == ObsOf(Trace[l]) IN
             /\ viol'  = IF P_C19(row, o) THEN viol ELSE Append(viol, l)
             /\ drift' = IF o = out THEN drift ELSE Append(drift, l)
          /\ l' = l + 1
          /\ IF l + 1 <= Len(Trace) THEN Load(l + 1)
             ELSE pc' = "end" /\ UNCHANGED <<row, tok, out>>

TNext == TStep \/ TCheck
TSpec == TInit /\ [][TNext]_tvars

Report == pc = "end" =>
            JsonSerialize("result.json", [n |-> Len(Trace), consumed |-> l - 1, viol |-> viol, drift |-> drift])
=============================================================================
