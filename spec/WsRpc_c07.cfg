SPECIFICATION Spec
CONSTANTS
  Unary = {u1}
  Subs = {s1, s2}
  Notifs = {}
  Retry = {}
  NVals = 2
  MaxGen = 0
  MaxFaults = 0
  AllowStop = FALSE
  AllowCancel = FALSE
  AllowHalf = FALSE
  Reconnect = TRUE
  MaxAttempts = 2
  FixExitOrder = TRUE
  FixReadErr = TRUE
  FixStaleDelete = TRUE
INVARIANT TypeOK
INVARIANT OwnResult
INVARIANT MailboxOwn
INVARIANT AtMostOnce
INVARIANT OwnValuesPrefix
INVARIANT BufferedOwn
INVARIANT StreamComplete
INVARIANT NoLostCall
CHECK_DEADLOCK FALSE
