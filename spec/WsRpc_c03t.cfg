SPECIFICATION Spec
CONSTANTS
  Unary = {u1, u2}
  Subs = {s1}
  Notifs = {}
  Retry = {}
  NVals = 1
  MaxGen = 2
  MaxFaults = 2
  AllowStop = FALSE
  AllowCancel = FALSE
  AllowHalf = TRUE
  Reconnect = TRUE
  MaxAttempts = 2
  FixExitOrder = TRUE
  FixReadErr = TRUE
  FixStaleDelete = TRUE
INVARIANT OwnResult
INVARIANT MailboxOwn
INVARIANT AtMostOnce
INVARIANT AnsweredExecuted
INVARIANT OwnValuesPrefix
INVARIANT BufferedOwn
INVARIANT NoLostCall
INVARIANT NoStaleOpenSink
CHECK_DEADLOCK FALSE
