SPECIFICATION Spec
CONSTANT RowSample <- Sample
CONSTANT Guards = FALSE
CONSTANT NPairs = 6
INVARIANT NeverCrashes
INVARIANT StepwiseAgrees
INVARIANT ModelSatisfiesC10
CHECK_DEADLOCK FALSE
