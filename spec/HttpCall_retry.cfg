SPECIFICATION Spec
CONSTANTS
  Replayable = FALSE
  RetryTagged = TRUE
  MaxAttempts = 3
INVARIANTS AtMostOnce AnsweredExecuted
CHECK_DEADLOCK FALSE
