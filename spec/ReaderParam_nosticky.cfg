SPECIFICATION Spec
CONSTANTS
  Calls = {c1, c2}
  MaxChunks = 2
  MaxExtra = 2
  OnceClose = TRUE
  StickyEOF = FALSE
INVARIANT NoDoubleClose
INVARIANT EofConsistent
INVARIANT OwnBytesPrefix
INVARIANT UploadAfterConsumption
INVARIANT AllBytesAtEof
CHECK_DEADLOCK FALSE
