SPECIFICATION Spec
INVARIANT TypeOK
INVARIANT StepwiseAgrees
INVARIANT ModelSatisfiesC19
CHECK_DEADLOCK FALSE
