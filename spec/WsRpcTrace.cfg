SPECIFICATION TSpec
CONSTANTS
  Unary <- TraceUnary
  Subs <- TraceSubs
  Notifs <- TraceNotif
  Retry <- TraceRetry
  NVals <- TraceNVals
  MaxGen <- TraceMaxGen
  MaxFaults <- TraceMaxFaults
  Reconnect <- TraceReconnect
  AllowStop = TRUE
  AllowCancel = TRUE
  AllowHalf = FALSE
  MaxAttempts = 100000
  FixExitOrder = TRUE
  FixReadErr = TRUE
  FixStaleDelete = TRUE
INVARIANT Report
INVARIANT TraceInvs
POSTCONDITION Post
CHECK_DEADLOCK FALSE
