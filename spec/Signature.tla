----------------------------- MODULE Signature -----------------------------
(***************************************************************************)
(* The call path of one unary call for every supported method signature:   *)
(* client.makeRpcFunc / rpcFunc.handleRpcCall (context offset, positional   *)
(* parameter marshalling, raw params), handler.register / handler.handle    *)
(* (context offset, per-position decoding, valOut / errOut, result XOR      *)
(* error) and rpcFunc.processResponse (zero value on error).                *)
(*                                                                         *)
(* Values are opaque: argument i of the caller is the token <<"a", i>>,     *)
(* RT(x) is the (uninterpreted) JSON round trip; the harness supplies       *)
(* digests of real values and decides RT with encoding/json.                *)
(***************************************************************************)
EXTENDS Naturals, Sequences, FiniteSets, TLC

Rets       == {"none", "val", "err", "valerr"}
Outcomes   == {"value", "error", "errorval"}     \* handler returns normally / an error / an error and a non-zero value
Transports == {"http", "ws", "custom"}
Fmts       == {"ns.orig", "ns.lower", "orig", "lower", "custom"}

HasErr(ret) == ret \in {"err", "valerr"}
HasVal(ret) == ret \in {"val", "valerr"}

Rows == {r \in [n : 0..3, ctx : BOOLEAN, raw : BOOLEAN, ret : Rets, outcome : Outcomes, tr : Transports, fmt : Fmts] :
           /\ r.raw => r.n = 1                                   \* raw params: exactly one RawParams parameter
           /\ r.outcome # "value" => HasErr(r.ret)               \* only methods with an error return can fail
           /\ r.outcome = "errorval" => r.ret = "valerr"}

\* two calls of different methods in flight at the same time on one client (each must still get its own result)
PairDescs == [n : 0..1, ctx : BOOLEAN, ret : {"val", "valerr"}]
PairRows  == {r \in [kind : {"pair"}, a : PairDescs, b : PairDescs, tr : Transports, fmt : {"ns.orig"}] : r.a # r.b}
PairExpected(r) == [aran |-> 1, bran |-> 1, ares |-> "rt", bres |-> "rt"]
P_C01_Pair(r, o) == o.aran = 1 /\ o.bran = 1 /\ o.ares = "rt" /\ o.bres = "rt"

\* k calls of ONE method issued at the same instant with pairwise different arguments (parameters that take a while to decode):
\* every call runs its handler once, with its own arguments, and gets the result computed from them
BurstRows == [kind : {"burst"}, k : {2, 8}, tr : Transports, fmt : {"ns.orig"}]
BurstExpected(r) == [ran |-> r.k, own |-> r.k]
P_C01_Burst(r, o) == o.ran = r.k /\ o.own = r.k

\* a second client / server pair without any option lives in the same process as pairs configured with parameter encoders /
\* decoders: options given to one client or server are nobody else's business
PlainRows == [kind : {"plain"}, tr : Transports, fmt : {"ns.orig"}]
PlainExpected(r) == [ok |-> TRUE]
P_C01_Plain(r, o) == o.ok

RT(x) == <<"rt", x>>
Arg(i) == <<"a", i>>
Zero == <<"zero">>
Res  == <<"res">>

(* ---------------- the algorithm, one step per stage ---------------- *)
VARIABLES row, pc, wire, hargs, hret, reply, cret
vars == <<row, pc, wire, hargs, hret, reply, cret>>
None == <<"none">>

Init == /\ row \in Rows /\ pc = "client" /\ wire = None /\ hargs = <<>> /\ hret = None /\ reply = None /\ cret = None

\* handleRpcCall: params := args[hasCtx:], each marshalled at its own position (raw params pass through verbatim)
ClientMarshal == /\ pc = "client"
                 /\ wire' = [i \in 1..row.n |-> Arg(i)]
                 /\ pc' = "server" /\ UNCHANGED <<row, hargs, hret, reply, cret>>
\* handler.handle: callParams[i + 1 + hasCtx] = decode(ps[i]) into the declared type; then doCall
ServerDecodeCall == /\ pc = "server"
                    /\ hargs' = [i \in 1..row.n |-> IF row.raw THEN wire[i] ELSE RT(wire[i])]
                    /\ hret' = CASE row.outcome = "value"    -> [val |-> IF HasVal(row.ret) THEN Res ELSE None, err |-> FALSE]
                                 [] row.outcome = "error"    -> [val |-> IF HasVal(row.ret) THEN Zero ELSE None, err |-> TRUE]
                                 [] row.outcome = "errorval" -> [val |-> Res, err |-> TRUE]
                    /\ pc' = "respond" /\ UNCHANGED <<row, wire, reply, cret>>
\* result XOR error: an error suppresses the value
Respond == /\ pc = "respond"
           /\ reply' = IF hret.err THEN [kind |-> "error", val |-> None]
                       ELSE [kind |-> "result", val |-> hret.val]
           /\ pc' = "clientret" /\ UNCHANGED <<row, wire, hargs, hret, cret>>
\* processResponse / processError: value decoded into the declared type, zero value + non-nil error on failure
ClientReturn == /\ pc = "clientret"
                /\ cret' = IF reply.kind = "error"
                           THEN [val |-> IF HasVal(row.ret) THEN Zero ELSE None, err |-> TRUE]
                           ELSE [val |-> IF HasVal(row.ret) THEN RT(reply.val) ELSE None, err |-> FALSE]
                /\ pc' = "done" /\ UNCHANGED <<row, wire, hargs, hret, reply>>
Next == ClientMarshal \/ ServerDecodeCall \/ Respond \/ ClientReturn
Spec == Init /\ [][Next]_vars

(* ---------------- expected abstract observation and the property ---------------- *)
Expected(r) == [ran |-> 1, argsok |-> TRUE, nargs |-> r.n,
                err |-> r.outcome # "value",
                res |-> IF ~HasVal(r.ret) THEN "na" ELSE IF r.outcome = "value" THEN "rt" ELSE "zero"]
\* o.ran: executions of exactly the registered method (other methods count 100); o.argsok: every positional argument the handler
\* saw equals the JSON round trip of the caller's argument at the same position; o.res in {"na","rt","zero","other"}
P_C01(r, o) ==
  /\ o.ran = 1 /\ o.nargs = r.n /\ o.argsok
  /\ o.err = (r.outcome # "value")
  /\ HasVal(r.ret) => o.res = IF r.outcome = "value" THEN "rt" ELSE "zero"
  /\ ~HasVal(r.ret) => o.res = "na"
ModelObs == [ran |-> 1, argsok |-> \A i \in 1..row.n : hargs[i] = IF row.raw THEN Arg(i) ELSE RT(Arg(i)), nargs |-> Len(hargs),
             err |-> cret.err,
             res |-> IF cret.val = None THEN "na" ELSE IF cret.val = RT(Res) THEN "rt" ELSE IF cret.val = Zero THEN "zero" ELSE "other"]
ModelSatisfiesC01 == pc = "done" => P_C01(row, ModelObs)
StepwiseAgrees    == pc = "done" => ModelObs = Expected(row)
=============================================================================
