SPECIFICATION Spec
CONSTANTS
  Writers = {"req", "cancel", "resp", "chanreg", "chanval", "chanclose", "ping", "stop", "swap"}
  MaxFrags = 2
  LockFree = {}
INVARIANT MutualExclusion
INVARIANT Contiguous
CHECK_DEADLOCK FALSE
