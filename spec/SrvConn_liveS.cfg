SPECIFICATION FairSpec
CONSTANTS
  Ids = {1}
  NVals = 2
  MaxCancel = 1
  StrictProducer = TRUE
  Variant = "ok"
  InitKind <- MCKindS
PROPERTY EventuallyGone
PROPERTY CancelActedUpon
CHECK_DEADLOCK FALSE
