SPECIFICATION TSpec
CONSTANTS
  Ids <- TraceIds
  InitKind <- TraceInitKind
  NVals = 1000000
  MaxCancel = 1000000
  StrictProducer = FALSE
  Variant = "ok"
INVARIANT Report
INVARIANT TraceInvs
POSTCONDITION Post
CHECK_DEADLOCK FALSE
