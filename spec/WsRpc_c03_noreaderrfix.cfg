SPECIFICATION Spec
CONSTANTS
  Unary = {u1, u2}
  Subs = {}
  Notifs = {}
  Retry = {}
  NVals = 0
  MaxGen = 1
  MaxFaults = 1
  AllowStop = FALSE
  AllowCancel = FALSE
  AllowHalf = FALSE
  Reconnect = TRUE
  MaxAttempts = 2
  FixExitOrder = TRUE
  FixReadErr = FALSE
  FixStaleDelete = TRUE
INVARIANT OwnResult
INVARIANT MailboxOwn
INVARIANT AtMostOnce
INVARIANT AnsweredExecuted
INVARIANT OwnValuesPrefix
INVARIANT BufferedOwn
INVARIANT NoLostCall
INVARIANT NoStaleOpenSink
CHECK_DEADLOCK FALSE
