--------------------------- MODULE HttpCallTrace ---------------------------
(* API-level binding of HttpCall: the events of the call under test of every recorded c04.httpkill scenario (one segment per   *)
(* scenario: "seg" with the method's retry tag, then start / exec / hret / fault / end lines in recorder order) must be a      *)
(* behaviour of HttpCall with Replayable = FALSE; the library's own method retry and the re-send it implies are silent steps.  *)
EXTENDS HttpCall, Json, Sequences
Trace == ndJsonDeserialize("hc.ndjson")
VARIABLES l, tagged
tvars == <<vars, l, tagged>>
Ev == Trace[l]
Is(n) == l <= Len(Trace) /\ Trace[l].e = n
Adv == l' = l + 1 /\ UNCHANGED tagged
Reset == /\ Is("seg") /\ tagged' = Ev.retry /\ l' = l + 1
         /\ cst' = "idle" /\ cres' = "none" /\ wire' = "none" /\ conn' = "up" /\ written' = FALSE /\ execs' = 0 /\ attempts' = 1
Logged ==
  \/ Is("start") /\ Send /\ Adv
  \/ Is("exec") /\ SrvExec /\ Adv
  \/ Is("hret") /\ SrvRespond /\ Adv
  \/ Is("fault") /\ (IF conn = "up" THEN ConnDies ELSE UNCHANGED vars) /\ Adv
  \/ Is("end") /\ Ev.outcome = "ok" /\ ClientGets /\ Adv
  \/ Is("end") /\ Ev.outcome = "conn" /\ ClientFails /\ Adv
\* the library's retry loop for a retry-tagged method (MethodRetry, then the new attempt's Send) has no API event of its own
Silent == /\ l <= Len(Trace) /\ ~Is("seg") /\ UNCHANGED <<l, tagged>> /\ tagged
          /\ \/ (cst = "done" /\ cres = "connerr" /\ attempts < MaxAttempts /\ cst' = "idle" /\ cres' = "none" /\ conn' = "up" /\ wire' = "none"
                 /\ written' = FALSE /\ attempts' = attempts + 1 /\ UNCHANGED execs)
             \/ (attempts > 1 /\ Send)
             \/ (cst = "sent" /\ conn = "dead" /\ cst' = "done" /\ cres' = "connerr" /\ UNCHANGED <<wire, conn, written, execs, attempts>>)
TInit == Init /\ l = 1 /\ tagged = FALSE
TNext == Reset \/ Logged \/ Silent
TSpec == TInit /\ [][TNext]_tvars
TraceInvs == ~tagged => execs <= 1
HighWater == TLCSet(1, IF l > TLCGet(1) THEN l ELSE TLCGet(1))
ASSUME TLCSet(1, 0)
Post == PrintT(<<"HIGHWATER", TLCGet(1)>>)
=============================================================================
