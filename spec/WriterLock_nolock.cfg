SPECIFICATION Spec
CONSTANTS
  Writers = {"req", "cancel", "resp", "chanreg", "chanval", "chanclose", "ping", "stop", "swap"}
  MaxFrags = 2
  LockFree = {"chanclose"}
INVARIANT MutualExclusion
INVARIANT Contiguous
CHECK_DEADLOCK FALSE
