-------------------------- MODULE ReaderParamObs --------------------------
(***************************************************************************)
(* Verdicts for C20.  Folds the API-level events of reader-carrying calls   *)
(* (recorded from the real httpio encoder/decoder pair) into a bounded      *)
(* observation per call and evaluates P_C20 at every quiescence point.      *)
(* Any event order is accepted here; ReaderParamTrace binds the order to    *)
(* the ReaderParam model.                                                   *)
(***************************************************************************)
EXTENDS Naturals, Sequences, FiniteSets, TLC, Json, SequencesExt

Trace == ndJsonDeserialize("trace.ndjson")
VARIABLES l, st, sc, viol
ovars == <<l, st, sc, viol>>

Fresh == [started |-> FALSE, len |-> 0, digest |-> "", gotLen |-> 0, hDigest |-> "", prefix |-> TRUE,
          sawEof |-> FALSE, badAfterEof |-> FALSE, reading |-> FALSE, closed |-> FALSE, hDone |-> FALSE,
          upArrived |-> FALSE, upReturned |-> FALSE, upStatus |-> 0, upEarly |-> FALSE, ended |-> FALSE, outcome |-> "none"]
CallIds == {1, 2, 3, 4}

Step(s, e) ==
  LET c == e.c  x == s[c] IN
  CASE e.ev = "callstart"  -> [s EXCEPT ![c] = [x EXCEPT !.started = TRUE, !.len = e.len, !.digest = e.digest]]
    [] e.ev = "uparrive"   -> [s EXCEPT ![c] = [x EXCEPT !.upArrived = TRUE]]
    [] e.ev = "hstart"     -> s
    [] e.ev = "readbegin"  -> [s EXCEPT ![c] = [x EXCEPT !.reading = TRUE]]
    [] e.ev = "readend"    -> [s EXCEPT ![c] = [x EXCEPT !.reading = FALSE, !.gotLen = @ + e.n,
                                                         !.badAfterEof = @ \/ (x.sawEof /\ ~x.closed /\ ~(e.n = 0 /\ e.cls = "eof")),
                                                         !.sawEof = @ \/ e.cls = "eof"]]
    [] e.ev = "closebegin" -> [s EXCEPT ![c] = [x EXCEPT !.closed = TRUE]]
    [] e.ev = "closeend"   -> s
    [] e.ev = "hreturn"    -> [s EXCEPT ![c] = [x EXCEPT !.hDone = TRUE, !.hDigest = e.digest, !.prefix = e.prefix]]
    [] e.ev = "upreturn"   -> [s EXCEPT ![c] = [x EXCEPT !.upReturned = TRUE, !.upStatus = e.status,
                                                         \* early: the handler has neither seen EOF, nor closed, nor has a read in flight
                                                         !.upEarly = ~(x.sawEof \/ x.closed \/ x.reading)]]
    [] e.ev = "callend"    -> [s EXCEPT ![c] = [x EXCEPT !.ended = TRUE, !.outcome = e.outcome]]

\* P_C20 for one call at quiescence; returns the set of violated clauses
Clauses(x) ==
  IF ~x.started THEN {}
  ELSE (IF x.ended /\ x.outcome = "ok" THEN {} ELSE {"call-failed-or-hung:" \o x.outcome})
       \cup (IF x.prefix THEN {} ELSE {"bytes-differ"})
       \cup (IF (x.sawEof /\ ~x.closed) => (x.gotLen = x.len /\ x.hDigest = x.digest) THEN {} ELSE {"not-byte-exact-at-eof"})
       \cup (IF x.badAfterEof THEN {"eof-not-consistent"} ELSE {})
       \cup (IF x.upReturned /\ x.upStatus = 200 THEN {} ELSE {"upload-not-completed"})
       \cup (IF x.upEarly THEN {"upload-completed-before-consumption"} ELSE {})

OInit == l = 1 /\ st = [c \in CallIds |-> Fresh] /\ sc = 0 /\ viol = <<>>
ONext == /\ l <= Len(Trace)
         /\ LET e == Trace[l] IN
            CASE e.ev = "reset"   -> st' = [c \in CallIds |-> Fresh] /\ sc' = e.sc /\ viol' = viol
              [] e.ev = "quiesce" -> /\ viol' = viol \o SetToSeq(UNION {{<<sc, c, cl>> : cl \in Clauses(st[c])} : c \in CallIds})
                                     /\ UNCHANGED <<st, sc>>
              [] OTHER            -> st' = Step(st, e) /\ UNCHANGED <<sc, viol>>
         /\ l' = l + 1
OSpec == OInit /\ [][ONext]_ovars
Report == l = Len(Trace) + 1 => JsonSerialize("result.json", [n |-> Len(Trace), consumed |-> l - 1, viol |-> viol, drift |-> <<>>])
=============================================================================
