------------------------------ MODULE HttpCall ------------------------------
(***************************************************************************)
(* One call over the HTTP transport (client.go: the http doRequest closure,  *)
(* handler.go: ServeHTTP / handleReader) as far as C04 is concerned: how      *)
(* often the handler runs when the connection carrying the request dies.     *)
(*                                                                         *)
(* The client POSTs the request on a (possibly reused) connection.  net/http *)
(* re-sends a request on a fresh connection only if it considers it          *)
(* replayable: nothing of it was written yet, or the request is idempotent   *)
(* (GET/HEAD/..., or carries an Idempotency-Key / X-Idempotency-Key header)   *)
(* and its body can be rewound.  go-jsonrpc sends a plain POST without such   *)
(* a header, so Replayable = FALSE is the library as it is; TRUE is the       *)
(* seeded design defect (a tagged request, or a retry added around Do).       *)
(* A retry-tagged METHOD is retried by the library itself, above this layer.  *)
(***************************************************************************)
EXTENDS Naturals, TLC
CONSTANTS Replayable,      \* the HTTP request may be re-sent by the transport (or by code around it) after a connection error
          RetryTagged,     \* the method carries retry:"true"
          MaxAttempts
VARIABLES cst,      \* caller: "idle", "sent", "done"
          cres,     \* "none", "ok", "connerr"
          wire,     \* where the request / response is: "none", "c2s", "srv", "s2c", "lost"
          conn,     \* "up", "dead"
          written,  \* some byte of the request reached the wire on this connection
          execs, attempts
vars == <<cst, cres, wire, conn, written, execs, attempts>>
Init == cst = "idle" /\ cres = "none" /\ wire = "none" /\ conn = "up" /\ written = FALSE /\ execs = 0 /\ attempts = 1

\* httpClient.Do: the request goes out
Send == /\ cst = "idle" /\ conn = "up" /\ cst' = "sent" /\ wire' = "c2s" /\ written' = TRUE
        /\ UNCHANGED <<cres, conn, execs, attempts>>
\* the server reads the body and runs the handler
SrvExec == /\ wire = "c2s" /\ wire' = "srv" /\ execs' = execs + 1      \* (also when the connection died after the request had arrived)
           /\ UNCHANGED <<cst, cres, conn, written, attempts>>
SrvRespond == /\ wire = "srv" /\ wire' = (IF conn = "up" THEN "s2c" ELSE "lost")
              /\ UNCHANGED <<cst, cres, conn, written, execs, attempts>>
ClientGets == /\ cst = "sent" /\ wire = "s2c" /\ conn = "up" /\ cst' = "done" /\ cres' = "ok" /\ wire' = "none"
              /\ UNCHANGED <<conn, written, execs, attempts>>
\* the connection dies at any moment (before, while or after the server works on the request)
ConnDies == /\ conn = "up" /\ conn' = "dead" /\ wire' = (IF wire = "s2c" THEN "lost" ELSE wire)
            /\ UNCHANGED <<cst, cres, written, execs, attempts>>
\* the client notices: Do returns an error ...
ClientFails == /\ cst = "sent" /\ conn = "dead" /\ ~Replayable
               /\ cst' = "done" /\ cres' = "connerr"
               /\ UNCHANGED <<wire, conn, written, execs, attempts>>
\* ... or (defect) the request is sent once more on a fresh connection
TransportReplay == /\ cst = "sent" /\ conn = "dead" /\ Replayable /\ attempts < MaxAttempts
                   /\ conn' = "up" /\ wire' = "c2s" /\ attempts' = attempts + 1
                   /\ UNCHANGED <<cst, cres, written, execs>>
\* the library's own retry loop for retry-tagged methods: a new call after the connection error
MethodRetry == /\ RetryTagged /\ cst = "done" /\ cres = "connerr" /\ attempts < MaxAttempts
               /\ cst' = "idle" /\ cres' = "none" /\ conn' = "up" /\ wire' = "none" /\ written' = FALSE /\ attempts' = attempts + 1
               /\ UNCHANGED execs
Next == Send \/ SrvExec \/ SrvRespond \/ ClientGets \/ ConnDies \/ ClientFails \/ TransportReplay \/ MethodRetry
Spec == Init /\ [][Next]_vars

\* C04: an untagged call executes at most once, exactly once when its caller got an answer
AtMostOnce == ~RetryTagged => execs <= 1
AnsweredExecuted == (cst = "done" /\ cres = "ok") => execs >= 1
=============================================================================
