---------------------------- MODULE ErrCodecMC ----------------------------
EXTENDS ErrCodec, Json, SequencesExt
WithExp(r) == [row |-> r, exp |-> Expected(r)]
ASSUME ndJsonSerialize("rows.ndjson", SetToSeq({WithExp(r) : r \in Rows}))
=============================================================================
