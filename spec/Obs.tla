-------------------------------- MODULE Obs --------------------------------
(***************************************************************************)
(* The observation state and the property predicates of the protocol        *)
(* properties (C02 - C08, C13 - C18).                                        *)
(*                                                                         *)
(* obs is built ONLY from API-visible events (DESIGN.md Appendix D): what   *)
(* callers, handlers, consumers, the frame-aware proxy and the connection   *)
(* factory can see.  ObsStep folds one event into obs; the predicates       *)
(* Chk_Cxx return the set of violated clauses.  The same definitions are    *)
(* used (1) by WsRpc.tla, which maintains obs for every behaviour of the    *)
(* model so that TLC checks the predicates in every reachable state, and    *)
(* (2) by ObsTrace.tla, which folds the events recorded from the real code  *)
(* and so decides the verdicts.                                             *)
(***************************************************************************)
EXTENDS Naturals, Integers, Sequences, FiniteSets, TLC

Upd(f, k, v) == [x \in (DOMAIN f) \cup {k} |-> IF x = k THEN v ELSE f[x]]
Get(f, k, d) == IF k \in DOMAIN f THEN f[k] ELSE d
EmptyFun     == [x \in {} |-> 0]

NoCall == [started |-> FALSE, ends |-> 0, outcome |-> "none", token |-> 0 - 1, detail |-> "", kind |-> "none", cli |-> "", tr |-> "",
           execs |-> 0, running |-> 0, ctxdone |-> FALSE, cancelReq |-> FALSE, srvconn |-> 0, peer |-> "",
           reqFrames |-> 0, idOnWire |-> FALSE, haschan |-> FALSE, endedHealthy |-> FALSE, startedHealthy |-> FALSE,
           endedWhileFault |-> FALSE, startedAfterClose |-> FALSE, ctxdoneBad |-> FALSE]
NoSub  == [sent |-> 0, recv |-> 0, ordered |-> TRUE, foreign |-> FALSE, closed |-> 0, afterClose |-> FALSE, hclosed |-> FALSE,
           sentAtHClose |-> 0]

ObsInit == [call |-> EmptyFun, sub |-> EmptyFun,
            faults |-> 0,            \* WireFault events so far
            badFrames |-> 0,         \* wire frames that are not one well-formed JSON-RPC message
            valBeforeResp |-> 0,     \* channel values seen on the wire before the response announcing their channel
            chanResp |-> {},         \* <<conn, chid>> announced by a response frame
            ended |-> {},            \* server connections whose ServeHTTP returned
            closerStart |-> {}, closerEnd |-> {},
            dialsAfterClose |-> 0, dials |-> 0, srvCancels |-> {},
            inWriter |-> EmptyFun,   \* library connection -> writer kind currently inside its write-lock section ("" if none)
            lockViol |-> 0,          \* overlapping write sections / sections entered without the lock held
            retained |-> 0,          \* library goroutines still labelled with a dead server connection at quiescence
            revNotifBad |-> {},                        \* reverse calls made by the handler of a notification that got no answer from the (connected) client
            revBlocked |-> {}, revWrong |-> {},       \* reverse calls that blocked (or succeeded) after their client's connection was gone
            healthyPhase |-> TRUE,   \* keepalive scenarios: no fault has been injected yet
            keepaliveViol |-> {},    \* clauses violated in a keepalive scenario
            scName |-> "",           \* name of the scenario (from the reset event)
            crashed |-> FALSE,       \* the process hosting the code under test died
            ctxMissing |-> {},       \* calls whose handler waited in vain for its context to be cancelled
            cfgErrors |-> FALSE, cfgNoReconnect |-> FALSE, cfgHooks |-> FALSE, cfgReverse |-> FALSE,   \* client configuration of the scenario (from the reset event)
            backoffSeen |-> FALSE,   \* a backoff delay was computed since the last dial
            badBackoff |-> 0,        \* redials not preceded by their own backoff delay, or with a delay outside [min, max] / below the schedule
            redialsNoReconnect |-> 0,
            serverUp |-> TRUE, faultAfterUp |-> FALSE,
            respFrames |-> EmptyFun, \* <<conn, id>> -> number of response frames
            reqIds |-> EmptyFun]     \* <<conn, id>> -> token carried by the request frame

Tracked(t) == t < 1000     \* tokens >= 1000 are probe calls

Call(o, t) == Get(o.call, t, NoCall)
Sub(o, t)  == Get(o.sub, t, NoSub)
SetCall(o, t, c) == [o EXCEPT !.call = Upd(o.call, t, c)]
SetSub(o, t, s)  == [o EXCEPT !.sub = Upd(o.sub, t, s)]

ObsStep(o, e) ==
  CASE e.ev = "CallStart" ->
         SetCall(o, e.call, [Call(o, e.call) EXCEPT !.started = TRUE, !.kind = e.kind, !.cli = e.cli, !.tr = e.transport, !.startedHealthy = o.healthyPhase,
                                                    !.startedAfterClose = e.cli \in o.closerEnd])
    [] e.ev = "CallEnd" ->
         LET c == Call(o, e.call) IN
         SetCall(o, e.call, [c EXCEPT !.ends = @ + 1, !.outcome = e.outcome, !.token = e.token, !.detail = e.detail, !.endedHealthy = o.healthyPhase,
                                      !.haschan = IF "haschan" \in DOMAIN e THEN e.haschan ELSE FALSE])
    [] e.ev = "HandlerStart" ->
         LET c == Call(o, e.call) IN
         SetCall(o, e.call, [c EXCEPT !.execs = @ + 1, !.running = @ + 1, !.srvconn = e.srvconn, !.peer = e.peer])
    [] e.ev = "HandlerEnd" ->
         LET c == Call(o, e.call) IN SetCall(o, e.call, [c EXCEPT !.running = IF @ > 0 THEN @ - 1 ELSE 0])
    [] e.ev = "CallerCancel" ->
         SetCall(o, e.call, [Call(o, e.call) EXCEPT !.cancelReq = TRUE])
    [] e.ev = "HandlerCtxDone" ->
         LET c == Call(o, e.call) IN
         \* legitimate causes: the caller cancelled this call, its connection ended or was hit by a fault, its client was closed,
         \* or the server cancelled the connection
         SetCall(o, e.call, [c EXCEPT !.ctxdone = TRUE,
                                      !.ctxdoneBad = ~(c.cancelReq \/ c.srvconn \in o.ended \/ o.faults > 0 \/ c.cli \in o.closerStart
                                                       \/ c.srvconn \in o.srvCancels \/ c.tr = "http")])
    [] e.ev = "ChanSend" ->
         SetSub(o, e.call, [Sub(o, e.call) EXCEPT !.sent = e.i])
    [] e.ev = "HandlerChanClose" ->
         LET s == Sub(o, e.call) IN SetSub(o, e.call, [s EXCEPT !.hclosed = TRUE, !.sentAtHClose = s.sent])
    [] e.ev = "ChanRecv" ->
         LET s == Sub(o, e.call) IN
         SetSub(o, e.call, [s EXCEPT !.recv = @ + 1, !.ordered = @ /\ e.i = s.recv + 1, !.foreign = @ \/ e.owner # e.call,
                                     !.afterClose = @ \/ s.closed > 0])
    [] e.ev = "ChanClosed" ->
         SetSub(o, e.call, [Sub(o, e.call) EXCEPT !.closed = @ + 1])
    [] e.ev = "WireFrame" ->
         LET o1 == IF e.wf \/ e.kind \in {"ping", "pong", "close"} THEN o ELSE [o EXCEPT !.badFrames = @ + 1] IN
         CASE e.kind = "req" /\ "tok" \in DOMAIN e /\ Tracked(e.tok) ->
                LET c == Call(o1, e.tok) IN
                [SetCall(o1, e.tok, [c EXCEPT !.reqFrames = @ + 1, !.idOnWire = TRUE]) EXCEPT !.reqIds = Upd(o1.reqIds, <<e.conn, e.id>>, e.tok)]
           [] e.kind = "notif" /\ "tok" \in DOMAIN e /\ Tracked(e.tok) ->
                LET c == Call(o1, e.tok) IN SetCall(o1, e.tok, [c EXCEPT !.reqFrames = @ + 1])
           [] e.kind = "resp" /\ e.dir = "s2c" ->
                [o1 EXCEPT !.respFrames = Upd(o1.respFrames, <<e.conn, e.id>>, Get(o1.respFrames, <<e.conn, e.id>>, 0) + 1),
                           !.chanResp = IF e.chid >= 0 THEN @ \cup {<<e.conn, e.chid>>} ELSE @]
           [] e.kind = "chval" /\ e.dir = "s2c" ->
                IF <<e.conn, e.chid>> \in o1.chanResp THEN o1 ELSE [o1 EXCEPT !.valBeforeResp = @ + 1]
           [] OTHER -> o1
    [] e.ev = "h:wl.enter" ->
         [o EXCEPT !.lockViol = IF Get(o.inWriter, e.conn, "") # "" \/ ~e.locked THEN @ + 1 ELSE @,
                   !.inWriter = Upd(o.inWriter, e.conn, e.w)]
    [] e.ev = "h:wl.exit" -> [o EXCEPT !.inWriter = Upd(o.inWriter, e.conn, "")]
    [] e.ev = "PhaseEnd" -> [o EXCEPT !.healthyPhase = FALSE]
    [] e.ev = "PhaseStart" -> [o EXCEPT !.healthyPhase = TRUE]
    [] e.ev = "BlackholeOutcome" ->
         [o EXCEPT !.keepaliveViol = @ \cup (IF e.pendingFailed THEN {} ELSE {"pending-call-not-failed-after-silent-peer"})
                                       \cup (IF e.redial THEN {} ELSE {"no-redial-after-silent-peer"})]
    [] e.ev = "ConnGoroutines" -> [o EXCEPT !.retained = @ + e.n + (IF e.connEnded THEN 0 ELSE 1)]
    [] e.ev = "RevStart" -> [o EXCEPT !.revWrong = IF Call(o, e.call).cli # "" /\ Call(o, e.call).cli # e.peer THEN @ \cup {e.call} ELSE @]
    [] e.ev = "RevNotifyResult" -> [o EXCEPT !.revNotifBad = IF e.ok THEN @ ELSE @ \cup {e.call}]
    [] e.ev = "RevCallEnd" -> [o EXCEPT !.revBlocked = IF ~e.failed THEN @ \cup {e.call} ELSE @]
    [] e.ev = "ProcessExit" -> [o EXCEPT !.crashed = TRUE]
    [] e.ev = "CtxMissing"  -> [o EXCEPT !.ctxMissing = @ \cup {e.call}]
    [] e.ev = "WireFault"  -> [o EXCEPT !.faults = @ + 1, !.faultAfterUp = TRUE]
    [] e.ev = "ConnEnded"  -> [o EXCEPT !.ended = @ \cup {e.srvconn}]
    [] e.ev = "SrvCancel"  -> [o EXCEPT !.srvCancels = @ \cup {e.srvconn}]
    [] e.ev = "CloserStart" -> [o EXCEPT !.closerStart = @ \cup {e.cli}]
    [] e.ev = "CloserEnd"   -> [o EXCEPT !.closerEnd = @ \cup {e.cli}]
    [] e.ev = "DialStart"   -> [o EXCEPT !.keepaliveViol = IF o.scName \in {"c17.keepalive", "c05.outage"} /\ o.healthyPhase /\ ~e.first THEN @ \cup {"healthy-link-redialled"} ELSE @,
                                         !.dials = @ + 1, !.dialsAfterClose = IF e.cli \in o.closerEnd THEN @ + 1 ELSE @,
                                         !.redialsNoReconnect = IF ~e.first /\ o.cfgNoReconnect THEN @ + 1 ELSE @,
                                         !.badBackoff = IF ~e.first /\ ~o.backoffSeen /\ o.cfgHooks THEN @ + 1 ELSE @,
                                         !.backoffSeen = FALSE]
    [] e.ev = "h:backoff.next" /\ e.min > 0 /\ e.max < 1000000 ->      \* reconnect backoff (method retry uses a 10 min cap)
         LET a == e.attempt
             \* the hook reports the delay before it is capped at max, so only the lower bound is meaningful here
             \* (an overflowed computation shows up as a negative delay)
             okRange == e.d >= e.min
             \* d >= min * 1.5^a up to the cap (integer form, small attempts only: TLC integers are 32 bit)
             okSched == IF a >= 0 /\ a <= 6 THEN ((e.d + 1) * (2 ^ a) >= e.min * (3 ^ a)) \/ e.d >= e.max ELSE TRUE
         IN [o EXCEPT !.backoffSeen = TRUE, !.badBackoff = IF okRange /\ okSched THEN @ ELSE @ + 1]
    [] e.ev = "ServerDown"  -> [o EXCEPT !.serverUp = FALSE]
    [] e.ev = "ServerUp"    -> [o EXCEPT !.serverUp = TRUE, !.faultAfterUp = FALSE]
    [] OTHER -> o

(* ------------------------------------------------------------------ *)
(* Predicates.  Each returns a set of <<property, clause, call>>.       *)
(* "Always" predicates are evaluated after every event, "Quiet" ones    *)
(* only when the harness reports quiescence (event Quiesce).            *)
(* ------------------------------------------------------------------ *)
Calls(o) == {t \in DOMAIN o.call : Tracked(t)}
Subs(o)  == {t \in DOMAIN o.sub : Tracked(t)}
Answered(c) == c.outcome \in {"ok", "herr"}

\* C02: a call returns at most once, a successful one with its own token
Always_C02(o) ==
  {<<"C02", "returned-more-than-once", t>> : t \in {t \in Calls(o) : o.call[t].ends > 1}}
  \cup {<<"C02", "foreign-result", t>> : t \in {t \in Calls(o) : o.call[t].outcome = "ok" /\ o.call[t].token # t}}
  \cup {<<"C02", "id-mismatch-error", t>> : t \in {t \in Calls(o) : o.call[t].outcome = "proto" /\ o.call[t].detail = "idmismatch"}}
  \* with no fault injected, no server-side cancel and the client not closed, a call ends with what its handler produced
  \cup {<<"C02", "library-error-on-healthy-link:" \o o.call[t].outcome, t>> :
          t \in {t \in Calls(o) : o.call[t].outcome \in {"proto", "other", "conn", "exit"} /\ o.faults = 0 /\ o.closerStart = {}
                                  /\ o.srvCancels = {} /\ o.ended = {} /\ ~o.call[t].cancelReq}}
\* C04: at most one execution and one request frame per untagged call; exactly one execution when the caller got an answer
Always_C04(o) ==
  {<<"C04", "executed-more-than-once", t>> : t \in {t \in Calls(o) : o.call[t].kind # "retry" /\ o.call[t].execs > 1}}
  \cup {<<"C04", "request-sent-more-than-once", t>> : t \in {t \in Calls(o) : o.call[t].kind # "retry" /\ o.call[t].reqFrames > 1}}
  \cup {<<"C04", "answered-without-execution", t>> : t \in {t \in Calls(o) : Answered(o.call[t]) /\ o.call[t].execs = 0 /\ o.call[t].kind \notin {"notify", "panicnotify"}}}
  \cup {<<"C04", "notification-carries-id", t>> : t \in {t \in Calls(o) : o.call[t].kind \in {"notify", "panicnotify"} /\ o.call[t].idOnWire}}
\* C06: a handler context is cancelled only for a legitimate cause
Always_C06(o) ==
  {<<"C06", "context-cancelled-without-cause", t>> : t \in {t \in Calls(o) : o.call[t].ctxdoneBad}}
\* C07 / C08: streams
Always_C07(o) ==
  {<<"C07", "foreign-value", t>> : t \in {t \in Subs(o) : o.sub[t].foreign}}
  \cup {<<"C07", "out-of-order-or-duplicate", t>> : t \in {t \in Subs(o) : ~o.sub[t].ordered}}
  \cup (IF o.valBeforeResp > 0 THEN {<<"C07", "value-on-wire-before-channel-response", 0>>} ELSE {})
Always_C08(o) ==
  {<<"C08", "closed-more-than-once", t>> : t \in {t \in Subs(o) : o.sub[t].closed > 1}}
  \cup {<<"C08", "value-after-close", t>> : t \in {t \in Subs(o) : o.sub[t].afterClose}}
  \cup {<<"C08", "more-received-than-sent", t>> : t \in {t \in Subs(o) : o.sub[t].recv > o.sub[t].sent}}
  \cup {<<"C08", "not-a-prefix", t>> : t \in {t \in Subs(o) : ~o.sub[t].ordered \/ o.sub[t].foreign}}
Always_C14(o) == (IF o.badFrames > 0 THEN {<<"C14", "malformed-or-interleaved-frame", 0>>} ELSE {})
                 \cup (IF o.lockViol > 0 THEN {<<"C14", "write-section-overlap-or-without-lock", 0>>} ELSE {})
Always_C18(o) == IF o.dialsAfterClose > 0 THEN {<<"C18", "redial-after-close", 0>>} ELSE {}

\* C05: redial discipline and error mapping
Always_C05(o) ==
  (IF o.badBackoff > 0 THEN {<<"C05", "redial-without-proper-backoff", 0>>} ELSE {})
  \* once healed the link is as good as the first one (keepalive included): no call fails on it, it is not dropped
  \cup (IF o.scName = "c05.outage" THEN {<<"C05", "healed-" \o cl, 0>> : cl \in o.keepaliveViol} ELSE {})
  \cup {<<"C05", "call-failed-on-healed-link:" \o o.call[t].outcome, t>> :
          t \in {t \in Calls(o) : o.scName = "c05.outage" /\ o.call[t].startedHealthy /\ o.call[t].endedHealthy /\ o.call[t].ends >= 1
                                  /\ o.call[t].outcome \notin {"ok", "herr"}}}
  \cup (IF o.redialsNoReconnect > 0 THEN {<<"C05", "no-reconnect-client-redialled", 0>>} ELSE {})
  \cup {<<"C05", "connection-error-mapping", t>> :
          t \in {t \in Calls(o) : o.call[t].outcome = "conn" /\ o.call[t].tr = "ws" /\ o.call[t].detail # (IF o.cfgErrors THEN "typed" ELSE "generic")}}

\* C05: whatever fault occurs a WebSocket call fails with the connection error (or the exit error), not with something else
Always_C05b(o) ==
  {<<"C05", "call-failed-with-non-connection-error:" \o o.call[t].outcome, t>> :
     t \in {t \in Calls(o) : o.call[t].outcome \in {"other", "proto"} /\ o.call[t].tr = "ws" /\ o.faults > 0 /\ ~o.call[t].cancelReq}}

\* a crash of the hosting process violates every property whose check ran the scenario
CrashProps == {"C02", "C03", "C04", "C05", "C06", "C07", "C08", "C10", "C13", "C14", "C15", "C16", "C17", "C18"}
Always_Crash(o) == IF o.crashed THEN {<<p, "process-crashed", 0>> : p \in CrashProps} ELSE {}
\* C06: a cancellation (or the end of the connection) that should have reached a handler never did
Always_C06b(o) == {<<"C06", "cancellation-never-reached-the-handler", t>> : t \in o.ctxMissing}

\* C13: the caller of a panicking handler gets an error that mentions the panic (a notification gets no reply)
PanicKinds == {"panic", "callbackpanic"}
Always_C13(o) ==
  {<<"C13", "panic-not-reported-to-its-caller:" \o o.call[t].outcome, t>> :
     t \in {t \in Calls(o) : o.call[t].ends >= 1 /\ o.faults = 0 /\ ~(o.call[t].outcome = "herr" /\ o.call[t].detail = "panic")
                             /\ (o.call[t].kind \in PanicKinds \/ (o.call[t].kind = "sub" /\ o.scName = "c13.panic" /\ t \in {9, 19}))}}

\* C15: the server cancels the handlers of a dead connection and lets go of it
Always_C15(o) ==
  (IF o.retained > 0 THEN {<<"C15", "goroutines-retained-for-dead-connection", 0>>} ELSE {})
  \cup {<<"C15", "handler-context-not-cancelled-at-connection-end", t>> : t \in IF o.scName = "c15.end" THEN o.ctxMissing ELSE {}}
\* C16: a reverse call reaches exactly the client whose request its handler serves; after that client is gone it returns an error
\* (it neither blocks nor succeeds); without the server option, or over HTTP, there is no reverse client
Always_C16(o) ==
  {<<"C16", "reverse-call-blocked-after-connection-loss", t>> : t \in o.revBlocked}
  \cup {<<"C16", "reverse-call-of-a-notification-handler-unanswered", t>> : t \in o.revNotifBad}
  \cup {<<"C16", "reverse-call-answered-by-another-client:" \o o.call[t].detail, t>> :
          t \in {t \in Calls(o) : o.call[t].kind = "callback" /\ o.call[t].outcome = "ok" /\ o.call[t].detail \notin {o.call[t].cli, "no-reverse-client"}}}
  \cup {<<"C16", "reverse-client-presence:" \o o.call[t].detail, t>> :
          t \in {t \in Calls(o) : o.call[t].kind = "callback" /\ o.call[t].outcome = "ok"
                                  /\ ((o.call[t].detail = "no-reverse-client") # (o.call[t].tr = "http" \/ ~o.cfgReverse))}}
  \cup {<<"C16", "reverse-handler-ran-on-another-client", t>> : t \in o.revWrong}

\* C17: a healthy link is never dropped; a silent peer is noticed, pending calls fail and a redial starts
Always_C17(o) ==
  (IF o.scName = "c17.keepalive" THEN {<<"C17", cl, 0>> : cl \in o.keepaliveViol} ELSE {})
  \cup {<<"C17", "call-failed-on-healthy-link:" \o o.call[t].outcome, t>> :
          t \in {t \in Calls(o) : o.scName = "c17.keepalive" /\ o.call[t].startedHealthy /\ o.call[t].endedHealthy /\ o.call[t].ends >= 1
                                  /\ o.call[t].outcome \notin {"ok", "herr"}}}

Always(o) == Always_C17(o) \cup Always_C15(o) \cup Always_C16(o) \cup Always_C13(o) \cup Always_Crash(o) \cup Always_C06b(o) \cup Always_C05(o) \cup Always_C05b(o) \cup Always_C02(o) \cup Always_C04(o) \cup Always_C06(o) \cup Always_C07(o) \cup Always_C08(o) \cup Always_C14(o) \cup Always_C18(o)

\* at quiescence q (a Quiesce event): nothing may be outstanding
Quiet(o, q) ==
  LET W == {q.waiting[i] : i \in DOMAIN q.waiting}  L == {q.lost[i] : i \in DOMAIN q.lost} IN
  {<<"C03", "call-never-returned", t>> : t \in W}
  \cup {<<"C05", "retry-call-never-returned", t>> : t \in {t \in W : Call(o, t).kind = "retry"}}
  \cup {<<"C02", "call-lost", t>> : t \in IF o.faults = 0 /\ o.closerStart = {} THEN L ELSE {}}
  \cup (IF q.probe \in {"hung", "foreign"} THEN {<<"C03", "probe-" \o q.probe, 0>>} ELSE {})
  \* C05: a reconnecting client is usable again once the server is reachable (the probe is issued after recovery)
  \cup (IF q.probe \notin {"ok", "none"} /\ ~o.cfgNoReconnect /\ o.serverUp /\ o.closerStart = {} THEN {<<"C05", "client-did-not-heal:" \o q.probe, 0>>} ELSE {})
  \* C05: a retry-tagged call rides out the outage and returns what a handler produced
  \cup {<<"C05", "retry-call-surfaced-" \o o.call[t].outcome, t>> :
          t \in {t \in Calls(o) : o.call[t].kind = "retry" /\ o.call[t].ends >= 1 /\ o.call[t].outcome \notin {"ok", "herr"}
                                  /\ o.call[t].tr = "ws" /\ ~o.call[t].cancelReq
                                  /\ ~o.cfgNoReconnect /\ o.serverUp /\ o.closerStart = {} /\ q.probe = "ok"}}
  \cup {<<"C04", "notification-not-executed-exactly-once", t>> :
          t \in {t \in Calls(o) : o.call[t].kind = "notify" /\ o.faults = 0 /\ o.closerStart = {} /\ o.call[t].ends = 1 /\ o.call[t].outcome = "ok" /\ o.call[t].execs # 1}}
  \* C07: a subscriber that stops reading blocks neither other subscriptions nor ordinary calls
  \cup {<<"C07", "blocked-behind-a-stalled-subscriber", t>> : t \in IF "stalled" \in DOMAIN q /\ Len(q.stalled) > 0 THEN W ELSE {}}
  \* C18: the closer returns, nothing stays blocked, later calls fail promptly
  \cup (IF "closerReturned" \in DOMAIN q /\ ~q.closerReturned THEN {<<"C18", "closer-did-not-return", 0>>} ELSE {})
  \cup (IF "late" \in DOMAIN q /\ q.late \in {"ok", "pending"} THEN {<<"C18", "call-after-close-" \o q.late, 0>>} ELSE {})
  \cup {<<"C18", "call-still-blocked-after-close", t>> : t \in IF o.closerEnd # {} THEN W ELSE {}}
  \* C18: closing an HTTP / custom-transport client does not disturb calls in progress
  \cup {<<"C18", "http-or-custom-call-disturbed-by-close:" \o Call(o, t).outcome, t>> :
          t \in IF "inprogress" \in DOMAIN q THEN {x \in {q.inprogress[i] : i \in DOMAIN q.inprogress} : Call(o, x).outcome # "ok"} ELSE {}}
  \cup {<<"C18", "channel-not-closed-after-close", t>> :
          t \in {t \in Calls(o) : o.closerEnd # {} /\ o.call[t].kind = "sub" /\ o.call[t].outcome = "ok" /\ o.call[t].haschan /\ Sub(o, t).closed = 0
                                  /\ "expectClosed" \in DOMAIN q /\ t \in {q.expectClosed[i] : i \in DOMAIN q.expectClosed}}}
  \cup {<<"C07", "stream-incomplete-on-healthy-link", t>> :
          t \in {t \in Subs(o) : o.sub[t].hclosed /\ o.faults = 0 /\ ~("stalled" \in DOMAIN q /\ t \in {q.stalled[i] : i \in DOMAIN q.stalled}) /\ o.closerStart = {} /\ ~Call(o, t).cancelReq /\ o.ended = {}
                                 /\ Call(o, t).outcome = "ok" /\ (o.sub[t].recv # o.sub[t].sentAtHClose \/ o.sub[t].closed # 1)}}
  \cup {<<"C08", "channel-never-closed", t>> :
          t \in {t \in Calls(o) : o.call[t].kind = "sub" /\ o.call[t].outcome = "ok" /\ o.call[t].haschan /\ Sub(o, t).closed = 0
                                  /\ "expectClosed" \in DOMAIN q /\ t \in {q.expectClosed[i] : i \in DOMAIN q.expectClosed}}}
=============================================================================
