SPECIFICATION Spec
CONSTANTS
  Unary = {u1, u2}
  Subs = {s1}
  Notifs = {}
  Retry = {}
  NVals = 1
  MaxGen = 0
  MaxFaults = 0
  AllowStop = FALSE
  AllowCancel = TRUE
  AllowHalf = FALSE
  Reconnect = TRUE
  MaxAttempts = 2
  FixExitOrder = TRUE
  FixReadErr = TRUE
  FixStaleDelete = TRUE
INVARIANT TypeOK
INVARIANT OwnResult
INVARIANT MailboxOwn
INVARIANT AtMostOnce
INVARIANT OwnValuesPrefix
INVARIANT BufferedOwn
INVARIANT CtxDoneOnlyIfCancelled
INVARIANT NoLostCall
CHECK_DEADLOCK FALSE
