SPECIFICATION Spec
CONSTANTS
  MaxP = 3
  MaxT = 7
  MaxPs = 6
  D = 1
  Horizon = 14
  PongFix = TRUE
  SendRenewsDeadline = FALSE
  AllowBlackhole = TRUE
  AllowCalls = TRUE
INVARIANT NeverDroppedWhenHealthy
INVARIANT DetectedInBoundedTime
CHECK_DEADLOCK FALSE
