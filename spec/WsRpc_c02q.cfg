SPECIFICATION Spec
CONSTANTS
  Unary = {u1, u2, u3}
  Subs = {}
  Notifs = {}
  Retry = {}
  NVals = 0
  MaxGen = 0
  MaxFaults = 0
  AllowStop = FALSE
  AllowCancel = TRUE
  AllowHalf = FALSE
  Reconnect = TRUE
  MaxAttempts = 1
  FixExitOrder = TRUE
  FixReadErr = TRUE
  FixStaleDelete = TRUE
INVARIANT TypeOK
INVARIANT OwnResult
INVARIANT MailboxOwn
INVARIANT AtMostOnce
INVARIANT AnsweredExecuted
INVARIANT CtxDoneOnlyIfCancelled
INVARIANT NoLostCall
CHECK_DEADLOCK FALSE
