SPECIFICATION Spec
CONSTANT Recover = TRUE
INVARIANT Confined
CHECK_DEADLOCK FALSE
