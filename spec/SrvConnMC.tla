----------------------------- MODULE SrvConnMC -----------------------------
EXTENDS SrvConn
\* handler mixes for the exhaustive runs (the configuration files pick one each)
MCKindUS == (1 :> "unary") @@ (2 :> "sub")
MCKindSN == (1 :> "sub") @@ (2 :> "notif")
MCKindPU == (1 :> "panic") @@ (2 :> "unary")
MCKindSS == (1 :> "sub") @@ (2 :> "sub")
MCKindUPn == (1 :> "unary") @@ (2 :> "pnotif")
MCKindUSN == (1 :> "unary") @@ (2 :> "sub") @@ (3 :> "notif")
MCKindS == (1 :> "sub")
=============================================================================
