SPECIFICATION Spec
CONSTANTS
  MaxP = 3
  MaxT = 8
  MaxPs = 9
  D = 1
  Horizon = 26
  PongFix = FALSE
  SendRenewsDeadline = FALSE
  AllowBlackhole = FALSE
  AllowCalls = FALSE
INVARIANT NeverDroppedWhenHealthy
INVARIANT DetectedInBoundedTime
CHECK_DEADLOCK FALSE
