SPECIFICATION TSpec
INVARIANT Report
CHECK_DEADLOCK FALSE
