---------------------------- MODULE SrvConnTrace ----------------------------
(***************************************************************************)
(* Hook-level binding of SrvConn to the code.  lib/srvtrace.py cuts the      *)
(* recorded hook / wire / API events of single-client scenarios into one     *)
(* segment per accepted server connection (a "seg" line carries the call      *)
(* tokens of that connection by kind) and renames them 1:1 (no event is       *)
(* invented, merged or reordered).  Every line consumes one trace position    *)
(* and takes the SrvConn action it is the linearization point of, with the    *)
(* logged fields bound; what the recorder cannot see (the peer or the link    *)
(* going away, loss of frames in flight, the deferred cancel() and            *)
(* close(exiting), which have no trace point of their own) is a silent step   *)
(* bounded by the model state.  The frames the proxy saw leaving the server   *)
(* must be the model's `out`, in order (pointer `seen`).  All segments of a   *)
(* run are validated by one TLC process; acceptance is the high-water mark.   *)
(***************************************************************************)
EXTENDS SrvConn, Json, SequencesExt

Trace == ndJsonDeserialize("sv.ndjson")
TraceIds == UNION {ToSet(Trace[i].unary) \cup ToSet(Trace[i].sub) \cup ToSet(Trace[i].notif) \cup ToSet(Trace[i].panic) \cup ToSet(Trace[i].pnotif)
                    : i \in {j \in 1..Len(Trace) : Trace[j].e = "seg"}}
TraceInitKind == [i \in TraceIds |-> "none"]

\* the configuration file of a run carries Ids as a literal (lib/props.py), which must be the set defined here
ASSUME Ids = TraceIds

VARIABLES l, seen
tvars == <<vars, l, seen>>
Ev    == Trace[l]
Is(n) == l <= Len(Trace) /\ Trace[l].e = n
Adv   == l' = l + 1
Skip  == UNCHANGED <<vars, seen>> /\ Adv
Same  == UNCHANGED seen /\ Adv

KindFrom(e) == [i \in Ids |-> IF i \in ToSet(e.unary) THEN "unary" ELSE IF i \in ToSet(e.sub) THEN "sub" ELSE IF i \in ToSet(e.notif) THEN "notif"
                               ELSE IF i \in ToSet(e.panic) THEN "panic" ELSE IF i \in ToSet(e.pnotif) THEN "pnotif" ELSE "none"]
\* a new connection: everything starts afresh
Reset == /\ Is("seg")
         /\ kind' = KindFrom(Ev)
         /\ net' = <<>> /\ sentReq' = {} /\ cancelsSent' = [i \in Ids |-> 0] /\ peer' = "up"
         /\ rd' = "wait" /\ rdMsg' = <<"none">> /\ incClosed' = FALSE /\ readErr' = FALSE /\ execQ' = <<>> /\ ex' = <<"idle">> /\ exec' = "run"
         /\ main' = "select" /\ connCtx' = "live" /\ exiting' = FALSE /\ sockClosed' = FALSE /\ closeSent' = FALSE /\ wfail' = FALSE
         /\ handling' = {} /\ hst' = [i \in Ids |-> "none"] /\ hctx' = [i \in Ids |-> "none"] /\ cancelRecv' = {}
         /\ fwd' = <<"none">> /\ chans' = {} /\ chanCtr' = 0 /\ taken' = [i \in Ids |-> 0] /\ pclosed' = {} /\ fclosed' = {}
         /\ out' = <<>> /\ seen' = 0 /\ Adv

Owner(chid) == (CHOOSE c \in chans : c[1] = chid)[2]
HasChan(chid) == \E c \in chans : c[1] = chid
\* ids a handler-side event without id (a notification) may belong to
NotifIn(st) == {i \in Ids : kind[i] \in NotifKinds /\ hst[i] = st}

Logged ==
  \* ---- the peer, as the proxy saw it (logged before the bytes are forwarded)
  \* (a frame the proxy took from the client after the link was already gone never reaches the server)
  \/ Is("send") /\ Ev.id \in Ids /\ (IF peer = "up" THEN ClientSend(Ev.id) ELSE UNCHANGED vars) /\ Same
  \/ Is("sendcancel") /\ Ev.id \in Ids /\ (IF peer = "up" THEN ClientCancel(Ev.id) ELSE UNCHANGED vars) /\ Same
  \/ Is("peerclose") /\ (IF peer = "up" THEN PeerGone("closed") ELSE UNCHANGED vars) /\ Same
  \* ---- reader and main loop
  \/ Is("rd.msg") /\ RdNext /\ Same
  \/ Is("main.incoming") /\ Ev.ok /\ MainIncomingMsg /\ Same
  \/ Is("main.incoming") /\ ~Ev.ok /\ MainIncomingClosed /\ Same
  \/ Is("rd.queue") /\ RdQueue /\ Same
  \/ Is("rd.err") /\ RdErr /\ Same
  \/ Is("peercut") /\ (IF peer = "up" THEN PeerCut ELSE UNCHANGED vars) /\ Same       \* the proxy cut a frame inside its payload
  \/ Is("rd.readerr") /\ RdFrameFail /\ Same
  \/ Is("main.readerr") /\ MainReadError /\ Same
  \/ Is("main.ctxdone") /\ MainCtxDone /\ Same
  \/ Is("srvcancel") /\ (IF connCtx = "live" THEN SrvCancel ELSE UNCHANGED vars) /\ Same
  \/ Is("closechans.pre") /\ ExitWait /\ Same
  \/ Is("closechans") /\ ExitChans /\ Same
  \/ Is("closeinflight") /\ ExitInFlight /\ Same
  \/ Is("closehandling") /\ ExitHandling /\ Same
  \/ Is("exit.done") /\ main = "returned" /\ Skip
  \/ Is("ws.done") /\ CloseSocket /\ Same
  \* ---- frame executor
  \/ Is("exec.pop") /\ Len(execQ) > 0 /\ Head(execQ)[1] = Ev.m /\ (Ev.id >= 0 => Head(execQ)[2] = Ev.id) /\ ExPop /\ Same
  \/ Is("call.spawn") /\ ex[1] = "popped" /\ (Ev.id >= 0 => ex[2][2] = Ev.id) /\ ExCall /\ Same
  \/ Is("cancel.recv") /\ ex[1] = "popped" /\ ex[2][1] = "cancel" /\ ex[2][2] = Ev.id /\ Ev.found = (Ev.id \in handling) /\ ExCancel /\ Same
  \/ Is("exec.exit") /\ ExExit /\ Same
  \* ---- handler goroutines
  \/ Is("h.start") /\ Ev.id >= 0 /\ HStart(Ev.id) /\ Same
  \/ Is("h.start") /\ Ev.id < 0 /\ (\E i \in NotifIn("spawned") : HStart(i)) /\ Same
  \/ Is("h.ret") /\ Ev.id >= 0 /\ Ev.panic = (kind[Ev.id] = "panic") /\ HReturn(Ev.id) /\ Same
  \/ Is("h.ret") /\ Ev.id < 0 /\ (\E i \in NotifIn("running") : Ev.panic = (kind[i] = "pnotif") /\ HReturn(i)) /\ Same
  \/ Is("handling.done") /\ HDone(Ev.id) /\ Same
  \/ Is("chout.pre") /\ Ev.id \in Ids /\ (IF fwd = <<"none">> THEN FwdSpawn(Ev.id) ELSE UNCHANGED vars) /\ Same
  \/ Is("fwd.reg") /\ chanCtr + 1 = Ev.chid /\ HChanReg(Ev.id) /\ Same
  \* the handler is about to write a response itself: for a channel-returning method that is the failed registration
  \/ Is("h.resp.pre") /\ Ev.id \in Ids /\ (IF kind[Ev.id] = "sub" /\ hst[Ev.id] = "chanret" THEN HChanRegFail(Ev.id) ELSE UNCHANGED vars) /\ Same
  \* the handler body saw its context cancelled: the model must have a cause for that by now (or the handler is past its body)
  \/ Is("ctxdone") /\ Ev.id \in Ids /\ (hctx[Ev.id] = "cancelled" \/ hst[Ev.id] \in {"returned", "chanret", "written", "done"}) /\ Skip
  \/ Is("pclose") /\ (IF Ev.id \in pclosed \/ ~(\E c \in chans : c[2] = Ev.id) THEN UNCHANGED vars ELSE PClose(Ev.id)) /\ Same
  \* ---- writes (the write section is entered; whose write it is follows from the model state)
  \/ Is("wl.resp") /\ ((\E i \in Ids : WriteResp(i)) \/ FwdRegWrite) /\ Same
  \/ Is("wl.val") /\ FwdValWrite /\ Same
  \/ Is("wl.cls") /\ FwdClsWrite /\ Same
  \* ---- forwarder
  \/ Is("fwd.val") /\ HasChan(Ev.chid) /\ FwdTake(Owner(Ev.chid)) /\ Same
  \/ Is("fwd.close") /\ HasChan(Ev.chid) /\ FwdCloseTake(Owner(Ev.chid)) /\ Same
  \/ Is("fwd.exit") /\ (IF fwd = <<"gone">> THEN UNCHANGED vars ELSE FwdExit) /\ Same
  \* ---- what the proxy saw leaving the server is what the model wrote, in order
  \/ Is("wire") /\ seen < Len(out) /\ LET f == out[seen + 1] IN
        /\ \/ (Ev.k = "resp" /\ f[1] = "resp" /\ f[2] = Ev.id /\ (f[3] = "err") = Ev.err)
           \/ (Ev.k = "val" /\ f[1] = "val" /\ HasChan(Ev.chid) /\ f[2] = Owner(Ev.chid))
           \/ (Ev.k = "cls" /\ f[1] = "cls" /\ HasChan(Ev.chid) /\ f[2] = Owner(Ev.chid))
        /\ seen' = seen + 1 /\ UNCHANGED vars /\ Adv

Silent ==
  /\ l <= Len(Trace) /\ ~Is("seg") /\ UNCHANGED <<l, seen>>
  /\ \/ Exit0 \/ ExitExiting \/ PeerGone("lost") \/ NetDrop \/ RdGiveUp
     \/ \E i \in Ids : PClose(i)        \* the producer logs its close after the fact; the forwarder may see it first

TInit == Init /\ l = 1 /\ seen = 0
TNext == Reset \/ Logged \/ Silent
TSpec == TInit /\ [][TNext]_tvars

\* the design invariants of SrvConn on every state of the real executions
TraceInvs == CancelHasCause /\ CancelExact /\ RespOnce /\ RespKindOK /\ StreamOrdered /\ ReturnedClean
HighWater == TLCSet(1, IF l > TLCGet(1) THEN l ELSE TLCGet(1))
Report == HighWater
ASSUME TLCSet(1, 0)
Post == PrintT(<<"HIGHWATER", TLCGet(1)>>)
=============================================================================
