SPECIFICATION Spec
CONSTANTS
  UnaryH = {h1, h4}
  NotifH = {h2}
  StreamH = {h3}
  Causes = {"graceful", "fin", "rst", "srvcancel"}
  LazyFix = TRUE
  ReaderFix = TRUE
INVARIANT HandlersCancelled
INVARIANT NothingRetained
PROPERTY Terminates
CHECK_DEADLOCK FALSE
