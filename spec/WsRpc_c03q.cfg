SPECIFICATION Spec
CONSTANTS
  Unary = {u1, u2, u3}
  Subs = {}
  Notifs = {}
  Retry = {}
  NVals = 0
  MaxGen = 1
  MaxFaults = 1
  AllowStop = FALSE
  AllowCancel = FALSE
  AllowHalf = TRUE
  Reconnect = TRUE
  MaxAttempts = 2
  FixExitOrder = TRUE
  FixReadErr = TRUE
  FixStaleDelete = TRUE
INVARIANT OwnResult
INVARIANT MailboxOwn
INVARIANT AtMostOnce
INVARIANT AnsweredExecuted
INVARIANT OwnValuesPrefix
INVARIANT BufferedOwn
INVARIANT NoLostCall
INVARIANT NoStaleOpenSink
CHECK_DEADLOCK FALSE
