SPECIFICATION Spec
CONSTANTS
  MaxP = 3
  MaxT = 8
  MaxPs = 9
  D = 1
  Horizon = 26
  PongFix = TRUE
  SendRenewsDeadline = FALSE
  AllowBlackhole = TRUE
  AllowCalls = TRUE
INVARIANT NeverDroppedWhenHealthy
INVARIANT DetectedInBoundedTime
CHECK_DEADLOCK FALSE
