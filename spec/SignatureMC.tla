---------------------------- MODULE SignatureMC ----------------------------
EXTENDS Signature, Json, SequencesExt
WithExp(r) == [row |-> r, exp |-> Expected(r)]
WithExpP(r) == [row |-> r, exp |-> PairExpected(r)]
ASSUME ndJsonSerialize("rows.ndjson", SetToSeq({WithExp(r) : r \in Rows}) \o SetToSeq({WithExpP(r) : r \in PairRows}))
=============================================================================
