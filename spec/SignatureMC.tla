---------------------------- MODULE SignatureMC ----------------------------
EXTENDS Signature, Json, SequencesExt
WithExp(r) == [row |-> r, exp |-> Expected(r)]
WithExpP(r) == [row |-> r, exp |-> PairExpected(r)]
WithExpB(r) == [row |-> r, exp |-> BurstExpected(r)]
WithExpL(r) == [row |-> r, exp |-> PlainExpected(r)]
ASSUME ndJsonSerialize("rows.ndjson", SetToSeq({WithExp(r) : r \in Rows}) \o SetToSeq({WithExpP(r) : r \in PairRows}) \o SetToSeq({WithExpB(r) : r \in BurstRows}) \o SetToSeq({WithExpL(r) : r \in PlainRows}))
=============================================================================
