SPECIFICATION Spec
CONSTANTS
  Unary = {u1}
  Subs = {s1}
  Notifs = {}
  Retry = {}
  NVals = 1
  MaxGen = 1
  MaxFaults = 1
  AllowStop = TRUE
  AllowCancel = FALSE
  AllowHalf = FALSE
  Reconnect = TRUE
  MaxAttempts = 2
  FixExitOrder = TRUE
  FixReadErr = TRUE
  FixStaleDelete = TRUE
INVARIANT TypeOK
INVARIANT OwnResult
INVARIANT MailboxOwn
INVARIANT AtMostOnce
INVARIANT OwnValuesPrefix
INVARIANT BufferedOwn
INVARIANT ClosedAfterExit
INVARIANT NoWaiterAfterExit
CHECK_DEADLOCK FALSE
