------------------------------- MODULE WsRpc -------------------------------
(***************************************************************************)
(* The WebSocket RPC protocol of go-jsonrpc, implementation-shaped:         *)
(* one action per critical section / channel operation of the client-side   *)
(* wsConn (websocket.go, client.go), an abstract server that may finish     *)
(* handlers in any order, and a network with faults.                        *)
(*                                                                         *)
(* goroutine          actions                                  code         *)
(* callers            CallStart CallExitErr CallReturn         client.go doRequest / handleRpcCall retry loop *)
(*                    CtxCancel CancelArm CancelGiveUp          client.go doRequest: case <-ctx.Done()    *)
(* ctx watcher        SubCtxCancel                              websocket.go handleCtxAsync (one per registered channel) *)
(* main loop          MainRecvReq MainReqCheck MainWrite        websocket.go handleWsConn: case req := <-c.requests *)
(*                    MainNotifDone                                                                       *)
(*                    MainIncomingMsg MainIncomingClosed        case r, ok := <-c.incoming                *)
(*                    MainReadError                             case rerr := <-c.readError                *)
(*                    MainCloseChans MainSpawnRedial            tryReconnect: closeInFlight, closeChans, go redial *)
(*                    MainStop MainStopClose MainExitWaitExec MainExitChans   case <-c.stop + deferred closeChans, closeInFlight, *)
(*                    MainExitInFlight                          close(exiting)                            *)
(* reader             RdNext RdErr RdFrameOk RdFrameFail        nextMessage / readFrame                   *)
(* executor           ExPop ExLookup ExRegChan ExDeliver        frameExecutor / handleResponse / handleChanMessage / handleChanClose *)
(*                    ExDelete                                                                            *)
(* redial             RcDial RcSwap RcAbort                     tryReconnect goroutine                    *)
(* buffer goroutine   BufDeliver BufClose BufCtxClose           client.go makeOutChan                     *)
(* server (abstract)  SrvRecv SrvRespond SrvChanStep SrvConnEnd server side of the same code, collapsed    *)
(* environment        FaultFin FaultCut Stop ConsumerRecv       proxy / application                       *)
(*                                                                         *)
(* Frames: <<"req",k>> <<"notif",k>> <<"cancel",k>> client to server;       *)
(*         <<"resp",k,chid>> <<"val",chid,owner,g,i>> <<"cls",chid>>         *)
(*         <<"trunc">> (a frame cut inside its payload) server to client.   *)
(*                                                                         *)
(* Correspondence with Obs.tla: OwnResult = C02 foreign-result;             *)
(* AtMostOnce / AnsweredExecuted / NoIdForNotif = C04; NoLostCall = C03     *)
(* call-never-returned (structural form); OwnValuesPrefix = C07/C08         *)
(* foreign / ordered / prefix; ClosedOnce = C08; ClosedAfterExit = C18/C08  *)
(* channel-never-closed; CtxDoneOnlyIfCancelled = C06.                      *)
(*                                                                         *)
(* WsRpcTrace.tla binds these actions to the hook events of recorded real   *)
(* executions (one trace line per linearization point).                     *)
(***************************************************************************)
EXTENDS Naturals, Sequences, FiniteSets, TLC

CONSTANTS Unary, Subs, Notifs, Retry,   \* sets of call tokens by kind
          NVals,                         \* values per stream
          MaxGen,                        \* reconnects allowed
          MaxFaults,                     \* connection faults allowed
          AllowStop,                     \* the closer may be invoked
          AllowCancel,                   \* callers may cancel their contexts
          AllowHalf,                     \* a fault may also leave the link half-open (server-to-client direction dead only)
          Reconnect,                     \* the client has a connection factory
          MaxAttempts,                   \* attempts of a retry-tagged call
          FixExitOrder,                  \* TRUE: exit stops and waits for the frame executor before closing channels (candidate repair)
          FixReadErr,                    \* TRUE: a failed ReadAll marks the connection unusable (repair 2fd3038); FALSE shows the old defect
          FixStaleDelete                 \* TRUE: handleResponse deletes the in-flight entry only if it still is the request it delivered to

Calls == Unary \cup Subs \cup Notifs \cup Retry
Gens  == 0..MaxGen

VARIABLES
  \* callers
  cst, cres, ready, attempts, cancelled, cancelSt, watch,
  \* client connection state
  inflight, gen, incErr, rd, rdGen, rdMsg, execQ, ex, mainpc, rc, readErrCh, stopped, exited,
  \* client channel handling
  chanH, sinkSt, sinkQ, recv,
  \* network
  c2s, s2c, link, cut, faults,
  \* server (abstract)
  srvRun, srvCtx, chanCtr, srvCh, execs, wireReq, idOnWire

callerVars == <<cst, cres, ready, attempts, cancelled, cancelSt, watch>>
connVars   == <<inflight, gen, incErr, rd, rdGen, rdMsg, execQ, ex, mainpc, rc, readErrCh, stopped, exited>>
chanVars   == <<chanH, sinkSt, sinkQ, recv>>
netVars    == <<c2s, s2c, link, cut, faults>>
srvVars    == <<srvRun, srvCtx, chanCtr, srvCh, execs, wireReq, idOnWire>>
vars == <<callerVars, connVars, chanVars, netVars, srvVars>>

\* a link is "up", "half" (half-open: what the client writes still arrives, nothing comes back - noticed only by a read deadline),
\* "fin" (ended in both directions) or "dead" (ended inside a frame)
Writable(g) == link[g] \in {"up", "half"}
ConnErr == <<"connerr">>
ExitErr == <<"exiterr">>
Ok(k)   == <<"ok", k>>

Init ==
  /\ cst = [k \in Calls |-> "idle"] /\ cres = [k \in Calls |-> <<"none">>] /\ ready = [k \in Calls |-> <<>>]
  /\ attempts = [k \in Calls |-> 1] /\ cancelled = [k \in Calls |-> FALSE] /\ cancelSt = [k \in Calls |-> "none"] /\ watch = [k \in Calls |-> "none"]
  /\ inflight = {} /\ gen = 0 /\ incErr = FALSE /\ rd = "wait" /\ rdGen = 0 /\ rdMsg = <<"none">>
  /\ execQ = <<>> /\ ex = <<"idle">> /\ mainpc = <<"select">> /\ rc = "none" /\ readErrCh = 0 /\ stopped = FALSE /\ exited = FALSE
  /\ chanH = {} /\ sinkSt = [k \in Subs |-> "none"] /\ sinkQ = [k \in Subs |-> <<>>] /\ recv = [k \in Subs |-> <<>>]
  /\ c2s = [g \in Gens |-> <<>>] /\ s2c = [g \in Gens |-> <<>>] /\ link = [g \in Gens |-> "up"] /\ cut = [g \in Gens |-> FALSE] /\ faults = 0
  /\ srvRun = [g \in Gens |-> {}] /\ srvCtx = [k \in Calls |-> "live"] /\ chanCtr = [g \in Gens |-> 0] /\ srvCh = [g \in Gens |-> {}]
  /\ execs = [k \in Calls |-> 0] /\ wireReq = [k \in Calls |-> 0] /\ idOnWire = [k \in Calls |-> FALSE]

Running == mainpc[1] \notin {"exited"}
AtSelect == mainpc = <<"select">>

(* ================================ callers ================================ *)
\* client.go handleRpcCall -> sendRequest -> doRequest: about to send on the unbuffered requests channel
CallStart(k) == /\ cst[k] = "idle" /\ cst' = [cst EXCEPT ![k] = "enq"]
                /\ UNCHANGED <<cres, ready, attempts, cancelled, cancelSt, watch, connVars, chanVars, netVars, srvVars>>
\* case <-c.exiting: return error
CallExitErr(k) == /\ cst[k] = "enq" /\ exited
                  /\ cst' = [cst EXCEPT ![k] = "done"] /\ cres' = [cres EXCEPT ![k] = ExitErr]
                  /\ UNCHANGED <<ready, attempts, cancelled, cancelSt, watch, connVars, chanVars, netVars, srvVars>>
\* resp = <-cr.ready; retry-tagged calls loop while they get the connection error
CallReturn(k) == /\ cst[k] = "wait" /\ Len(ready[k]) > 0
                 /\ LET r == Head(ready[k]) IN
                    IF k \in Retry /\ r = ConnErr /\ attempts[k] < MaxAttempts
                    THEN /\ cst' = [cst EXCEPT ![k] = "idle"] /\ ready' = [ready EXCEPT ![k] = <<>>]   \* fresh ready channel per attempt
                         /\ attempts' = [attempts EXCEPT ![k] = @ + 1] /\ UNCHANGED cres
                    ELSE /\ cst' = [cst EXCEPT ![k] = "done"] /\ cres' = [cres EXCEPT ![k] = r]
                         /\ ready' = [ready EXCEPT ![k] = Tail(@)] /\ UNCHANGED attempts
                 /\ UNCHANGED <<cancelled, cancelSt, watch, connVars, chanVars, netVars, srvVars>>
\* the caller's context is cancelled (application)
\* (also before the call is issued: a caller may come with an already cancelled context)
CtxCancel(k) == /\ AllowCancel /\ ~cancelled[k] /\ k \notin Notifs
                /\ cancelled' = [cancelled EXCEPT ![k] = TRUE]
                /\ cancelSt' = [cancelSt EXCEPT ![k] = IF cst[k] = "wait" THEN "enq" ELSE @]
                /\ UNCHANGED <<cst, cres, ready, attempts, watch, connVars, chanVars, netVars, srvVars>>
\* a caller that starts waiting with an already cancelled context sends the cancel request as soon as it waits
CancelArm(k) == /\ cancelled[k] /\ cancelSt[k] = "none" /\ cst[k] = "wait"
                /\ cancelSt' = [cancelSt EXCEPT ![k] = "enq"]
                /\ UNCHANGED <<cst, cres, ready, attempts, cancelled, watch, connVars, chanVars, netVars, srvVars>>
\* case requests <- cancelReq / case <-c.exiting (the cancel notification goes through the main loop)
CancelGiveUp(k) == /\ cancelSt[k] = "enq" /\ exited /\ cancelSt' = [cancelSt EXCEPT ![k] = "sent"]
                   /\ UNCHANGED <<cst, cres, ready, attempts, cancelled, watch, connVars, chanVars, netVars, srvVars>>
\* handleCtxAsync (one goroutine per registered channel, started by the executor when it registers the channel handler):
\* once the subscription context is cancelled it writes a cancel frame itself, under writeLk -- also when the caller's own
\* cancel request already went out through the main loop (the handler then sees two)
SubCtxCancel(k) == /\ watch[k] = "armed" /\ cancelled[k]
                   /\ watch' = [watch EXCEPT ![k] = "fired"]
                   /\ c2s' = IF Writable(gen) THEN [c2s EXCEPT ![gen] = Append(@, <<"cancel", k>>)] ELSE c2s
                   /\ UNCHANGED <<cst, cres, ready, attempts, cancelled, cancelSt, connVars, chanVars, s2c, link, cut, faults, srvVars>>

(* ================================ main loop ================================ *)
\* case req := <-c.requests (rendez-vous with a caller or with a caller's cancel notification)
MainRecvReq(k) == /\ AtSelect /\ cst[k] = "enq"
                  /\ cst' = [cst EXCEPT ![k] = "wait"] /\ mainpc' = <<"check", k>>
                  /\ UNCHANGED <<cres, ready, attempts, cancelled, cancelSt, watch, inflight, gen, incErr, rd, rdGen, rdMsg, execQ, ex, rc, readErrCh, stopped, exited,
                                 chanVars, netVars, srvVars>>
MainRecvCancel(k) == /\ AtSelect /\ cancelSt[k] = "enq"
                     /\ cancelSt' = [cancelSt EXCEPT ![k] = "sent"] /\ mainpc' = <<"writecancel", k>>
                     /\ UNCHANGED <<cst, cres, ready, attempts, cancelled, watch, inflight, gen, incErr, rd, rdGen, rdMsg, execQ, ex, rc, readErrCh, stopped, exited,
                                    chanVars, netVars, srvVars>>
\* under writeLk: fail fast when the connection is known to be unusable, else register in-flight (notifications: neither)
MainReqCheck(k) == /\ mainpc = <<"check", k>>
                   /\ IF k \in Notifs THEN mainpc' = <<"write", k>> /\ UNCHANGED <<ready, inflight>>
                      ELSE IF incErr THEN /\ ready' = [ready EXCEPT ![k] = Append(@, ConnErr)]
                                          /\ mainpc' = <<"select">> /\ UNCHANGED inflight
                      ELSE inflight' = {e \in inflight : e[1] # k} \cup {<<k, attempts[k]>>} /\ mainpc' = <<"write", k>> /\ UNCHANGED ready
                   /\ UNCHANGED <<cst, cres, attempts, cancelled, cancelSt, watch, gen, incErr, rd, rdGen, rdMsg, execQ, ex, rc, readErrCh, stopped, exited,
                                  chanVars, netVars, srvVars>>
\* sendRequest (its own writeLk section): the frame reaches the wire if the current connection is up
MainWrite(k) == /\ mainpc = <<"write", k>>
                /\ c2s' = IF Writable(gen) THEN [c2s EXCEPT ![gen] = Append(@, <<IF k \in Notifs THEN "notif" ELSE "req", k>>)] ELSE c2s
                /\ wireReq' = IF Writable(gen) THEN [wireReq EXCEPT ![k] = @ + 1] ELSE wireReq
                /\ idOnWire' = IF Writable(gen) /\ k \notin Notifs THEN [idOnWire EXCEPT ![k] = TRUE] ELSE idOnWire
                /\ mainpc' = IF k \in Notifs THEN <<"notifdone", k>> ELSE <<"select">>
                /\ UNCHANGED <<callerVars, inflight, gen, incErr, rd, rdGen, rdMsg, execQ, ex, rc, readErrCh, stopped, exited, chanVars, s2c, link, cut, faults,
                               srvRun, srvCtx, chanCtr, srvCh, execs>>
MainWriteCancel(k) == /\ mainpc = <<"writecancel", k>>
                      /\ c2s' = IF Writable(gen) THEN [c2s EXCEPT ![gen] = Append(@, <<"cancel", k>>)] ELSE c2s
                      /\ mainpc' = <<"select">>
                      /\ UNCHANGED <<callerVars, inflight, gen, incErr, rd, rdGen, rdMsg, execQ, ex, rc, readErrCh, stopped, exited, chanVars, s2c, link, cut, faults, srvVars>>
\* notification: req.ready <- resp (no error unless the write failed)
MainNotifDone(k) == /\ mainpc = <<"notifdone", k>>
                    /\ ready' = [ready EXCEPT ![k] = Append(@, Ok(k))] /\ mainpc' = <<"select">>
                    /\ UNCHANGED <<cst, cres, attempts, cancelled, cancelSt, watch, inflight, gen, incErr, rd, rdGen, rdMsg, execQ, ex, rc, readErrCh, stopped, exited,
                                   chanVars, netVars, srvVars>>
\* case r, ok := <-c.incoming with ok: go readFrame
MainIncomingMsg == /\ AtSelect /\ rd = "hasmsg" /\ rd' = "reading"
                   /\ UNCHANGED <<callerVars, inflight, gen, incErr, rdGen, rdMsg, execQ, ex, mainpc, rc, readErrCh, stopped, exited, chanVars, netVars, srvVars>>
\* closeInFlight: every in-flight call gets the connection error
\* (an entry of an earlier attempt of a retry-tagged call has a ready channel nobody reads any more)
CloseInFlightEff == /\ ready' = [k \in Calls |-> IF <<k, attempts[k]>> \in inflight THEN Append(ready[k], ConnErr) ELSE ready[k]]
                    /\ inflight' = {}
\* closeChans: every handler is removed and its sink closed
CloseChansEff == /\ chanH' = {}
                 /\ sinkSt' = [k \in Subs |-> IF \E h \in chanH : h[2] = k THEN "closed" ELSE sinkSt[k]]
\* incoming closed with an error: tryReconnect (client with a factory) or exit
MainIncomingClosed == /\ AtSelect /\ rd = "closing"
                      /\ rd' = "none"
                      /\ IF Reconnect THEN CloseInFlightEff /\ mainpc' = <<"rc1">>
                                      ELSE mainpc' = <<"exit0">> /\ UNCHANGED <<ready, inflight>>
                      /\ UNCHANGED <<cst, cres, attempts, cancelled, cancelSt, watch, gen, incErr, rdGen, rdMsg, execQ, ex, rc, readErrCh, stopped, exited, chanVars, netVars, srvVars>>
\* case rerr := <-c.readError (the read error path marks the connection unusable in readFrame: see RdFrameFail)
MainReadError == /\ AtSelect /\ readErrCh = 1
                 /\ readErrCh' = 0
                 /\ IF Reconnect THEN CloseInFlightEff /\ mainpc' = <<"rc1">>
                                 ELSE mainpc' = <<"exit0">> /\ UNCHANGED <<ready, inflight>>
                 /\ UNCHANGED <<cst, cres, attempts, cancelled, cancelSt, watch, gen, incErr, rd, rdGen, rdMsg, execQ, ex, rc, stopped, exited, chanVars, netVars, srvVars>>
MainCloseChans == /\ mainpc = <<"rc1">> /\ CloseChansEff /\ mainpc' = <<"rc2">>
                  /\ UNCHANGED <<callerVars, inflight, gen, incErr, rd, rdGen, rdMsg, execQ, ex, rc, readErrCh, stopped, exited, sinkQ, recv, netVars, srvVars>>
MainSpawnRedial == /\ mainpc = <<"rc2">> /\ mainpc' = <<"select">> /\ rc' = "sleep"
                   /\ UNCHANGED <<callerVars, inflight, gen, incErr, rd, rdGen, rdMsg, execQ, ex, readErrCh, stopped, exited, chanVars, netVars, srvVars>>
\* case <-c.stop: ...
MainStop == /\ AtSelect /\ stopped
            /\ mainpc' = <<"stopping">>
            /\ UNCHANGED <<callerVars, inflight, gen, incErr, rd, rdGen, rdMsg, execQ, ex, rc, readErrCh, stopped, exited, chanVars, netVars, srvVars>>
\* ... under writeLk: write the close frame, conn.Close(); return -> deferred steps.  Frames the server wrote before are still read
\* until the socket is closed
MainStopClose == /\ mainpc = <<"stopping">>
                 /\ mainpc' = <<"exit0">> /\ link' = [link EXCEPT ![gen] = IF @ = "up" THEN "fin" ELSE @]
                 /\ UNCHANGED <<callerVars, inflight, gen, incErr, rd, rdGen, rdMsg, execQ, ex, rc, readErrCh, stopped, exited, chanVars, c2s, s2c, cut, faults, srvVars>>
\* (candidate repair) wait until the frame executor is between frames before shutting the tables down
MainExitWaitExec == /\ mainpc = <<"exit0">> /\ (~FixExitOrder \/ ex = <<"idle">>)      \* cancel(); <-executorDone
                    /\ mainpc' = <<"exit1">>
                    /\ UNCHANGED <<callerVars, inflight, gen, incErr, rd, rdGen, rdMsg, execQ, ex, rc, readErrCh, stopped, exited, chanVars, netVars, srvVars>>
MainExitChans == /\ mainpc = <<"exit1">> /\ CloseChansEff /\ mainpc' = <<"exit2">>
                 /\ UNCHANGED <<callerVars, inflight, gen, incErr, rd, rdGen, rdMsg, execQ, ex, rc, readErrCh, stopped, exited, sinkQ, recv, netVars, srvVars>>
MainExitInFlight == /\ mainpc = <<"exit2">> /\ CloseInFlightEff /\ mainpc' = <<"exited">> /\ exited' = TRUE
                    /\ UNCHANGED <<cst, cres, attempts, cancelled, cancelSt, watch, gen, incErr, rd, rdGen, rdMsg, execQ, ex, rc, readErrCh, stopped, chanVars, netVars, srvVars>>

(* ================================ redial ================================ *)
RcDial == /\ rc = "sleep" /\ ~exited /\ mainpc[1] \notin {"exit0", "exit1", "exit2"} /\ gen < MaxGen /\ rc' = "dialed"
          /\ UNCHANGED <<callerVars, inflight, gen, incErr, rd, rdGen, rdMsg, execQ, ex, mainpc, readErrCh, stopped, exited, chanVars, netVars, srvVars>>
\* under writeLk: c.conn = conn; incomingErr = nil; then go nextMessage.  The main loop's two writeLk sections (the
\* fail-fast check + in-flight registration, and the write) are one atomic step each, so mutual exclusion with them needs
\* no guard; the swap may fall between them, as in the code (the lock is released in between)
RcSwap == /\ rc = "dialed"
          /\ gen' = gen + 1 /\ incErr' = FALSE /\ rc' = "none" /\ rd' = "wait" /\ rdGen' = gen + 1
          /\ UNCHANGED <<callerVars, inflight, rdMsg, execQ, ex, mainpc, readErrCh, stopped, exited, chanVars, netVars, srvVars>>
RcAbort == /\ rc # "none" /\ (exited \/ mainpc[1] \in {"exit0", "exit1", "exit2"}) /\ rc' = "none"
           /\ UNCHANGED <<callerVars, inflight, gen, incErr, rd, rdGen, rdMsg, execQ, ex, mainpc, readErrCh, stopped, exited, chanVars, netVars, srvVars>>

(* ================================ reader ================================ *)
RdNext == /\ rd = "wait" /\ Len(s2c[rdGen]) > 0
          /\ rdMsg' = Head(s2c[rdGen]) /\ s2c' = [s2c EXCEPT ![rdGen] = Tail(@)] /\ rd' = "hasmsg"
          /\ UNCHANGED <<callerVars, inflight, gen, incErr, rdGen, execQ, ex, mainpc, rc, readErrCh, stopped, exited, chanVars, c2s, link, cut, faults, srvVars>>
\* NextReader fails: incomingErr = err; close(incoming)
RdErr == /\ rd = "wait" /\ Len(s2c[rdGen]) = 0 /\ link[rdGen] # "up"
         /\ incErr' = TRUE /\ rd' = "closing"
         /\ UNCHANGED <<callerVars, inflight, gen, rdGen, rdMsg, execQ, ex, mainpc, rc, readErrCh, stopped, exited, chanVars, netVars, srvVars>>
\* hand-off refused because the loop has exited (select on exiting)
RdGiveUp == /\ rd = "hasmsg" /\ exited /\ rd' = "none" /\ rdMsg' = <<"none">>
            /\ UNCHANGED <<callerVars, inflight, gen, incErr, rdGen, execQ, ex, mainpc, rc, readErrCh, stopped, exited, chanVars, netVars, srvVars>>
RdFrameOk == /\ rd = "reading" /\ rdMsg[1] # "trunc"
             /\ execQ' = Append(execQ, rdMsg) /\ rdMsg' = <<"none">> /\ rd' = "wait"
             /\ UNCHANGED <<callerVars, inflight, gen, incErr, rdGen, ex, mainpc, rc, readErrCh, stopped, exited, chanVars, netVars, srvVars>>
\* ReadAll fails inside the frame: incomingErr = err (repair), readError <- err
RdFrameFail == /\ rd = "reading" /\ rdMsg[1] = "trunc"
               /\ readErrCh' = 1 /\ incErr' = (IF FixReadErr THEN TRUE ELSE incErr) /\ rdMsg' = <<"none">> /\ rd' = "none"
               /\ UNCHANGED <<callerVars, inflight, gen, rdGen, execQ, ex, mainpc, rc, stopped, exited, chanVars, netVars, srvVars>>

(* ================================ frame executor ================================ *)
\* the executor's context is cancelled when handleWsConn returns (with the repair: before the deferred shutdown steps)
ExecAlive == IF FixExitOrder THEN mainpc[1] \notin {"exit1", "exit2", "exited"} ELSE mainpc[1] # "exited"
\* the executor takes the next frame off its queue ...
ExPop == /\ ex = <<"idle">> /\ Len(execQ) > 0 /\ ExecAlive
         /\ ex' = <<"popped", Head(execQ)>> /\ execQ' = Tail(execQ)
         /\ UNCHANGED <<callerVars, inflight, gen, incErr, rd, rdGen, rdMsg, mainpc, rc, readErrCh, stopped, exited, chanVars, netVars, srvVars>>
\* ... and only then looks its target up (in-flight table under inflightLk, channel handlers under chanHandlersLk): the main
\* loop's closeInFlight / closeChans may fall between the two
ExLookup == /\ ex[1] = "popped"
            /\ LET f == ex[2] IN
               CASE f[1] = "resp" ->
                      /\ ex' = IF \E e \in inflight : e[1] = f[2]
                               THEN <<"found", f[2], f[3], (CHOOSE e \in inflight : e[1] = f[2])[2]>> ELSE <<"idle">>
                      /\ UNCHANGED <<chanH, sinkSt, sinkQ>>
                 [] f[1] = "val" ->
                      /\ ex' = <<"idle">>
                      /\ IF \E h \in chanH : h[1] = f[2]
                         THEN LET h == CHOOSE h \in chanH : h[1] = f[2] IN
                              \* the sink drops the value when the subscription context is already cancelled
                              /\ sinkQ' = IF sinkSt[h[2]] = "open" /\ ~cancelled[h[2]] THEN [sinkQ EXCEPT ![h[2]] = Append(@, <<f[3], f[4], f[5]>>)] ELSE sinkQ
                              /\ UNCHANGED <<chanH, sinkSt>>
                         ELSE UNCHANGED <<chanH, sinkSt, sinkQ>>
                 [] f[1] = "cls" ->
                      /\ ex' = <<"idle">>
                      /\ IF \E h \in chanH : h[1] = f[2]
                         THEN LET h == CHOOSE h \in chanH : h[1] = f[2] IN
                              /\ chanH' = chanH \ {h}
                              /\ sinkSt' = [sinkSt EXCEPT ![h[2]] = "closed"]
                              /\ UNCHANGED sinkQ
                         ELSE UNCHANGED <<chanH, sinkSt, sinkQ>>
            /\ UNCHANGED <<callerVars, inflight, gen, incErr, rd, rdGen, rdMsg, execQ, mainpc, rc, readErrCh, stopped, exited, recv, netVars, srvVars>>
\* retCh(): make the sink; chanHandlers[chid] = handler (overwrites an entry with the same channel id)
ExRegChan == /\ ex[1] = "found" /\ ex[2] \in Subs /\ ex[3] # 0
             /\ chanH' = {h \in chanH : h[1] # ex[3]} \cup {<<ex[3], ex[2]>>}
             /\ sinkSt' = [sinkSt EXCEPT ![ex[2]] = "open"]
             /\ ex' = <<"foundreg", ex[2], ex[3], ex[4]>>
             /\ watch' = [watch EXCEPT ![ex[2]] = "armed"]         \* go c.handleCtxAsync(chanCtx, frame.ID)
             /\ UNCHANGED <<cst, cres, ready, attempts, cancelled, cancelSt, inflight, gen, incErr, rd, rdGen, rdMsg, execQ, mainpc, rc, readErrCh, stopped, exited, sinkQ, recv, netVars, srvVars>>
ExDeliver == /\ \/ (ex[1] = "found" /\ (ex[2] \notin Subs \/ ex[3] = 0))
                \/ ex[1] = "foundreg"
             /\ ready' = IF ex[4] = attempts[ex[2]] THEN [ready EXCEPT ![ex[2]] = Append(@, Ok(ex[2]))] ELSE ready
             /\ ex' = <<"delivered", ex[2], ex[4]>>
             /\ UNCHANGED <<cst, cres, attempts, cancelled, cancelSt, watch, inflight, gen, incErr, rd, rdGen, rdMsg, execQ, mainpc, rc, readErrCh, stopped, exited, chanVars, netVars, srvVars>>
ExDelete == /\ ex[1] = "delivered"
            /\ inflight' = IF FixStaleDelete THEN inflight \ {<<ex[2], ex[3]>>} ELSE {e \in inflight : e[1] # ex[2]}
            /\ ex' = <<"idle">>
            /\ UNCHANGED <<callerVars, gen, incErr, rd, rdGen, rdMsg, execQ, mainpc, rc, readErrCh, stopped, exited, chanVars, netVars, srvVars>>

(* ================================ client buffer goroutine / consumer ================================ *)
\* the consumer takes the next buffered value (also after the subscription context was cancelled: the buffer goroutine's select
\* may still pick the send while BufCtxClose has not happened)
BufDeliver(k) == /\ sinkSt[k] \in {"open", "closed"} /\ Len(sinkQ[k]) > 0
                 /\ recv' = [recv EXCEPT ![k] = Append(@, Head(sinkQ[k]))] /\ sinkQ' = [sinkQ EXCEPT ![k] = Tail(@)]
                 /\ UNCHANGED <<callerVars, connVars, chanH, sinkSt, netVars, srvVars>>
\* incoming closed and drained: ch.Close()
BufClose(k) == /\ sinkSt[k] = "closed" /\ Len(sinkQ[k]) = 0 /\ sinkSt' = [sinkSt EXCEPT ![k] = "done"]
               /\ UNCHANGED <<callerVars, connVars, chanH, sinkQ, recv, netVars, srvVars>>
\* ctx.Done(): ch.Close() at once, buffered values are dropped
BufCtxClose(k) == /\ sinkSt[k] \in {"open", "closed"} /\ cancelled[k]
                  /\ sinkSt' = [sinkSt EXCEPT ![k] = "done"] /\ sinkQ' = [sinkQ EXCEPT ![k] = <<>>]
                  /\ UNCHANGED <<callerVars, connVars, chanH, recv, netVars, srvVars>>

(* ================================ server (abstract) ================================ *)
Send(g, f) == IF link[g] = "up" THEN [s2c EXCEPT ![g] = Append(@, IF cut[g] THEN <<"trunc">> ELSE f)] ELSE s2c
LinkAfterSend(g) == IF link[g] = "up" /\ cut[g] THEN [link EXCEPT ![g] = "dead"] ELSE link
\* a frame the client wrote is processed by the server -- also after the connection has ended, when it had already arrived
\* (a frame that is lost is one for which this step is never taken)
SrvRecv(g) == /\ Len(c2s[g]) > 0
              /\ LET f == Head(c2s[g]) IN
                 /\ c2s' = [c2s EXCEPT ![g] = Tail(@)]
                 /\ IF f[1] = "cancel"
                    THEN /\ srvCtx' = IF f[2] \in srvRun[g] \/ (\E c \in srvCh[g] : c[2] = f[2]) THEN [srvCtx EXCEPT ![f[2]] = "cancelled"] ELSE srvCtx
                         /\ UNCHANGED <<srvRun, execs>>
                    ELSE /\ srvRun' = [srvRun EXCEPT ![g] = @ \cup {f[2]}] /\ execs' = [execs EXCEPT ![f[2]] = @ + 1]
                         /\ srvCtx' = [srvCtx EXCEPT ![f[2]] = "live"]
              /\ UNCHANGED <<callerVars, connVars, chanVars, s2c, link, cut, faults, chanCtr, srvCh, wireReq, idOnWire>>
\* a handler finishes (any order): response, or channel registration, or nothing for a notification
SrvRespond(g, k) == /\ k \in srvRun[g]
                    /\ srvRun' = [srvRun EXCEPT ![g] = @ \ {k}]
                    /\ IF k \in Notifs THEN UNCHANGED <<s2c, link, chanCtr, srvCh>>
                       ELSE IF k \in Subs
                       THEN /\ chanCtr' = [chanCtr EXCEPT ![g] = @ + 1]
                            /\ srvCh' = [srvCh EXCEPT ![g] = @ \cup {<<chanCtr[g] + 1, k, 1>>}]
                            /\ s2c' = Send(g, <<"resp", k, chanCtr[g] + 1>>) /\ link' = LinkAfterSend(g)
                       ELSE /\ s2c' = Send(g, <<"resp", k, 0>>) /\ link' = LinkAfterSend(g) /\ UNCHANGED <<chanCtr, srvCh>>
                    /\ UNCHANGED <<callerVars, connVars, chanVars, c2s, cut, faults, srvCtx, execs, wireReq, idOnWire>>
\* the forwarder sends the next value, or the close once the handler closed its channel (early if its context was cancelled)
SrvChanStep(g) == \E c \in srvCh[g] :
                   /\ link[g] = "up"
                   /\ IF c[3] <= NVals /\ srvCtx[c[2]] = "live"
                      THEN /\ s2c' = Send(g, <<"val", c[1], c[2], g, c[3]>>)
                           /\ srvCh' = [srvCh EXCEPT ![g] = (@ \ {c}) \cup {<<c[1], c[2], c[3] + 1>>}]
                      ELSE /\ s2c' = Send(g, <<"cls", c[1]>>)
                           /\ srvCh' = [srvCh EXCEPT ![g] = @ \ {c}]
                   /\ link' = LinkAfterSend(g)
                   /\ UNCHANGED <<callerVars, connVars, chanVars, c2s, cut, faults, srvRun, srvCtx, chanCtr, execs, wireReq, idOnWire>>
\* the server notices the end of a connection: handlers' contexts are cancelled, streams dropped
SrvConnEnd(g) == /\ link[g] # "up" /\ (srvRun[g] # {} \/ srvCh[g] # {})
                 /\ srvCtx' = [k \in Calls |-> IF k \in srvRun[g] \/ (\E c \in srvCh[g] : c[2] = k) THEN "connended" ELSE srvCtx[k]]
                 /\ srvRun' = [srvRun EXCEPT ![g] = {}] /\ srvCh' = [srvCh EXCEPT ![g] = {}]
                 /\ UNCHANGED <<callerVars, connVars, chanVars, netVars, chanCtr, execs, wireReq, idOnWire>>

(* ================================ environment ================================ *)
FaultFin(g) == /\ faults < MaxFaults /\ link[g] = "up" /\ g <= gen
               /\ link' = [link EXCEPT ![g] = "fin"] /\ faults' = faults + 1
               /\ UNCHANGED <<callerVars, connVars, chanVars, c2s, s2c, cut, srvVars>>
\* the link goes half-open: server-to-client traffic is swallowed from now on, client-to-server traffic still arrives
FaultHalf(g) == /\ AllowHalf /\ faults < MaxFaults /\ link[g] = "up" /\ g <= gen
                /\ link' = [link EXCEPT ![g] = "half"] /\ faults' = faults + 1
                /\ UNCHANGED <<callerVars, connVars, chanVars, c2s, s2c, cut, srvVars>>
\* the next server-to-client frame is cut inside its payload, then the connection dies
FaultCut(g) == /\ faults < MaxFaults /\ link[g] = "up" /\ ~cut[g] /\ g <= gen
               /\ cut' = [cut EXCEPT ![g] = TRUE] /\ faults' = faults + 1
               /\ UNCHANGED <<callerVars, connVars, chanVars, c2s, s2c, link, srvVars>>
Stop == /\ AllowStop /\ ~stopped /\ stopped' = TRUE
        /\ UNCHANGED <<callerVars, inflight, gen, incErr, rd, rdGen, rdMsg, execQ, ex, mainpc, rc, readErrCh, exited, chanVars, netVars, srvVars>>

Next ==
  \/ \E k \in Calls : \/ CallStart(k) \/ CallExitErr(k) \/ CallReturn(k) \/ CtxCancel(k) \/ CancelArm(k) \/ CancelGiveUp(k) \/ SubCtxCancel(k)
                      \/ MainRecvReq(k) \/ MainRecvCancel(k) \/ MainReqCheck(k) \/ MainWrite(k) \/ MainWriteCancel(k) \/ MainNotifDone(k)
  \/ MainIncomingMsg \/ MainIncomingClosed \/ MainReadError \/ MainCloseChans \/ MainSpawnRedial
  \/ MainStop \/ MainStopClose \/ MainExitWaitExec \/ MainExitChans \/ MainExitInFlight
  \/ RcDial \/ RcSwap \/ RcAbort
  \/ RdNext \/ RdErr \/ RdGiveUp \/ RdFrameOk \/ RdFrameFail
  \/ ExPop \/ ExLookup \/ ExRegChan \/ ExDeliver \/ ExDelete
  \/ \E k \in Subs : BufDeliver(k) \/ BufClose(k) \/ BufCtxClose(k)
  \/ \E g \in Gens : SrvRecv(g) \/ SrvChanStep(g) \/ SrvConnEnd(g) \/ FaultFin(g) \/ FaultHalf(g) \/ FaultCut(g) \/ \E k \in Calls : SrvRespond(g, k)
  \/ Stop

Spec == Init /\ [][Next]_vars
\* fairness of everything the library and the server do (not of the environment: faults, Stop, CtxCancel, new calls)
LibNext ==
  \/ \E k \in Calls : \/ CallExitErr(k) \/ CallReturn(k) \/ CancelArm(k) \/ CancelGiveUp(k) \/ SubCtxCancel(k)
                      \/ MainRecvReq(k) \/ MainRecvCancel(k) \/ MainReqCheck(k) \/ MainWrite(k) \/ MainWriteCancel(k) \/ MainNotifDone(k)
  \/ MainIncomingMsg \/ MainIncomingClosed \/ MainReadError \/ MainCloseChans \/ MainSpawnRedial
  \/ MainStop \/ MainStopClose \/ MainExitWaitExec \/ MainExitChans \/ MainExitInFlight
  \/ RcDial \/ RcSwap \/ RcAbort \/ RdNext \/ RdErr \/ RdGiveUp \/ RdFrameOk \/ RdFrameFail
  \/ ExPop \/ ExLookup \/ ExRegChan \/ ExDeliver \/ ExDelete
  \/ \E k \in Subs : BufDeliver(k) \/ BufClose(k) \/ BufCtxClose(k)
  \/ \E g \in Gens : SrvRecv(g) \/ SrvChanStep(g) \/ SrvConnEnd(g) \/ \E k \in Calls : SrvRespond(g, k)
FairSpec == Spec /\ WF_vars(LibNext) /\ \A k \in Calls : WF_vars(CallStart(k))

(* ================================ properties ================================ *)
TypeOK == /\ cst \in [Calls -> {"idle", "enq", "wait", "done"}]
          /\ mainpc[1] \in {"select", "check", "write", "writecancel", "notifdone", "rc1", "rc2", "stopping", "exit0", "exit1", "exit2", "exited"}
\* C02: a call only ever returns its own result or a connection / exit error
OwnResult == \A k \in Calls : cst[k] = "done" => cres[k] \in {Ok(k), ConnErr, ExitErr}
\* C02: the one-slot mailbox never needs more than two entries (delivery racing closeInFlight) and never holds a foreign result
MailboxOwn == \A k \in Calls : Len(ready[k]) <= 2 /\ \A i \in 1..Len(ready[k]) : ready[k][i] \in {Ok(k), ConnErr}
\* C04
AtMostOnce       == \A k \in Calls \ Retry : execs[k] <= 1 /\ wireReq[k] <= 1
AnsweredExecuted == \A k \in Calls \ Notifs : (cst[k] = "done" /\ cres[k] = Ok(k)) => execs[k] >= 1
NoIdForNotif     == \A k \in Notifs : ~idOnWire[k]
RetryMayRepeat   == \A k \in Retry : execs[k] <= 1      \* expected to be VIOLATED (contrast case: shows AtMostOnce is not vacuous)
\* C06: a handler context is cancelled only because its caller cancelled or its connection ended
CtxDoneOnlyIfCancelled == \A k \in Calls : /\ srvCtx[k] = "cancelled" => cancelled[k]
                                           /\ srvCtx[k] = "connended" => \E g \in Gens : link[g] # "up"
\* C07 / C08: what a consumer received is its own stream, from one connection, in order, a prefix of what was sent
OwnValuesPrefix == \A k \in Subs : \A i \in 1..Len(recv[k]) :
                      /\ recv[k][i][1] = k /\ recv[k][i][3] = i /\ recv[k][i][2] = recv[k][1][2]
BufferedOwn == \A k \in Subs : \A i \in 1..Len(sinkQ[k]) : sinkQ[k][i][1] = k
\* C03: in a quiescent healthy state nobody is left waiting
Quiescent == /\ AtSelect /\ rc = "none" /\ ex = <<"idle">> /\ execQ = <<>> /\ readErrCh = 0
             /\ rd = "wait" /\ rdGen = gen /\ link[gen] = "up" /\ ~incErr /\ ~cut[gen]
             /\ \A g \in Gens : srvRun[g] = {} /\ c2s[g] = <<>> /\ (g = gen => s2c[g] = <<>>)
NoLostCall == Quiescent => \A k \in Calls : cst[k] # "wait" \/ Len(ready[k]) > 0
\* C18 / C08: once the client has fully exited, every channel handed out with a nil error is closed (or will be by its buffer goroutine)
HandedOut(k) == (cst[k] = "done" /\ cres[k] = Ok(k)) \/ (Len(ready[k]) > 0 /\ Head(ready[k]) = Ok(k))
ClosedAfterExit == (exited /\ ex = <<"idle">>) => \A k \in Subs : HandedOut(k) => sinkSt[k] \in {"closed", "done"}
\* C18: after the exit nobody waits
NoWaiterAfterExit == exited => \A k \in Calls : cst[k] # "wait" \/ Len(ready[k]) > 0
\* C08: after a reconnect completed (quiescent, healthy) no sink of an older connection is still open
NoStaleOpenSink == Quiescent => \A k \in Subs : (sinkSt[k] = "open" /\ cst[k] = "done" /\ cres[k] = Ok(k)) =>
                                   \E h \in chanH : h[2] = k /\ \E c \in srvCh[gen] : c[1] = h[1] /\ c[2] = k
\* C07: on a healthy link a stream whose handler closed it arrives complete
StreamComplete == \A k \in Subs : (faults = 0 /\ ~stopped /\ ~cancelled[k] /\ sinkSt[k] = "done") => Len(recv[k]) = NVals
\* C06 liveness: on a healthy link a cancellation issued while the handler runs reaches it (or the handler has finished)
CancelReachesHandler == \A k \in Unary : (cancelled[k] /\ cst[k] = "wait") ~> (srvCtx[k] = "cancelled" \/ cst[k] = "done" \/ \A g \in Gens : k \notin srvRun[g])
\* C08 liveness: a channel that was handed out is eventually closed once the stream is over for whatever reason
\* (a sink registered for a call that already got the connection error is never handed to anybody: the caller received a nil channel)
ChannelsTerminate == \A k \in Subs : (sinkSt[k] = "open" /\ cst[k] = "done" /\ cres[k] = Ok(k)) ~> (sinkSt[k] = "done")
\* liveness (FairSpec, no state constraint): every started call returns; every handed-out channel is eventually closed once its stream ended
EveryCallReturns == \A k \in Calls : (cst[k] # "idle") ~> (cst[k] \in {"done", "idle"})
=============================================================================
