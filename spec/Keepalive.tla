----------------------------- MODULE Keepalive -----------------------------
(***************************************************************************)
(* Discrete-time model of the keepalive machinery of a client wsConn        *)
(* (websocket.go: setupPings, ping / pong handlers, resetReadDeadline,      *)
(* the main loop's idle timer) against a server that may ping too.          *)
(*                                                                         *)
(*  Pc, Tc   client ping interval and timeout;  Ps  server ping interval    *)
(*  D        one-way delay bound of the healthy link                        *)
(*  blackAt  tick from which the link silently swallows everything (-1: never)*)
(* Two detectors on the client: the socket read deadline (renewed when a    *)
(* message arrives and on every ping / pong seen) and the main loop's idle  *)
(* timer (re-armed by every main-loop event, including outgoing requests).  *)
(* PongFix = FALSE is the code before 6cb168b (pings never answered when a  *)
(* side pings itself); SendRenewsDeadline = TRUE a variant in which writing *)
(* a request renews the read deadline (both are non-vacuity witnesses).      *)
(***************************************************************************)
EXTENDS Integers, FiniteSets, TLC
CONSTANTS MaxP, MaxT, MaxPs, D, Horizon, PongFix, SendRenewsDeadline, AllowBlackhole, AllowCalls

VARIABLES now, Pc, Tc, Ps, cNextPing, sNextPing, deadline, idle, net, lost, lostAt, blackAt, sends
vars == <<now, Pc, Tc, Ps, cNextPing, sNextPing, deadline, idle, net, lost, lostAt, blackAt, sends>>

Init == /\ now = 0
        /\ Pc \in 1..MaxP /\ Tc \in 2..MaxT /\ Ps \in 0..MaxPs
        /\ cNextPing = Pc /\ sNextPing = (IF Ps = 0 THEN 0 - 1 ELSE Ps)
        /\ deadline = Tc /\ idle = Tc /\ net = {} /\ lost = FALSE /\ lostAt = 0 - 1
        /\ blackAt \in (IF AllowBlackhole THEN {0 - 1} \cup 1..(Horizon \div 2) ELSE {0 - 1})
        /\ sends = 0

Healthy == blackAt = 0 - 1 \/ now < blackAt
Due == \/ cNextPing = now
       \/ (sNextPing = now /\ Ps > 0)
       \/ \E m \in net : m[3] <= now
       \/ (deadline <= now /\ ~lost) \/ (idle <= now /\ ~lost)
Tick == /\ ~Due /\ now < Horizon /\ ~lost /\ now' = now + 1
        /\ UNCHANGED <<Pc, Tc, Ps, cNextPing, sNextPing, deadline, idle, net, lost, lostAt, blackAt, sends>>
Put(kind, dir) == IF Healthy THEN \E d \in 0..D : net' = net \cup {<<kind, dir, now + d>>} ELSE UNCHANGED net
\* ping ticker
CPing == /\ cNextPing = now /\ ~lost /\ cNextPing' = now + Pc /\ Put("ping", "c2s")
         /\ UNCHANGED <<now, Pc, Tc, Ps, sNextPing, deadline, idle, lost, lostAt, blackAt, sends>>
SPing == /\ Ps > 0 /\ sNextPing = now /\ sNextPing' = now + Ps /\ Put("ping", "s2c")
         /\ UNCHANGED <<now, Pc, Tc, Ps, cNextPing, deadline, idle, lost, lostAt, blackAt, sends>>
\* the server receives a ping: gorilla's default handler (Ps = 0) or the repaired custom one answers with a pong
SrvRecv == \E m \in net :
             /\ m[2] = "c2s" /\ m[3] <= now
             /\ IF m[1] = "ping" /\ (Ps = 0 \/ PongFix) /\ Healthy
                THEN \E d \in 0..D : net' = (net \ {m}) \cup {<<"pong", "s2c", now + d>>}
                ELSE net' = net \ {m}
             /\ UNCHANGED <<now, Pc, Tc, Ps, cNextPing, sNextPing, deadline, idle, lost, lostAt, blackAt, sends>>
\* the client receives a ping or a pong: pongs channel -> main loop -> resetReadDeadline (and the idle timer is re-armed)
CliRecv == \E m \in net :
             /\ m[2] = "s2c" /\ m[3] <= now /\ ~lost
             /\ net' = net \ {m}
             /\ deadline' = now + Tc /\ idle' = now + Tc
             /\ UNCHANGED <<now, Pc, Tc, Ps, cNextPing, sNextPing, lost, lostAt, blackAt, sends>>
\* the application issues a call: a main-loop event (idle timer re-armed), the request is written
ClientSend == /\ AllowCalls /\ ~lost /\ sends < Horizon
              /\ idle' = now + Tc /\ sends' = sends + 1
              /\ deadline' = IF SendRenewsDeadline THEN now + Tc ELSE deadline
              /\ UNCHANGED <<now, Pc, Tc, Ps, cNextPing, sNextPing, net, lost, lostAt, blackAt>>
\* a detector fires (pending deliveries are handled first: the reader is already blocked in Read)
Expire == /\ ~lost /\ (deadline <= now \/ idle <= now)
          /\ ~\E m \in net : m[2] = "s2c" /\ m[3] <= now
          /\ lost' = TRUE /\ lostAt' = now
          /\ UNCHANGED <<now, Pc, Tc, Ps, cNextPing, sNextPing, deadline, idle, net, blackAt, sends>>
Next == Tick \/ CPing \/ SPing \/ SrvRecv \/ CliRecv \/ ClientSend \/ Expire
Spec == Init /\ [][Next]_vars

\* the documented constraint (ping interval below half the timeout), with the link delay accounted for
Documented == 2 * Pc < Tc /\ Pc + 2 * D < Tc
\* C17 (1): a healthy link is never dropped, whatever the peer's ping interval, the idle periods and the calls in progress
NeverDroppedWhenHealthy == (Documented /\ blackAt = 0 - 1) => ~lost
\* C17 (2): a silent peer is noticed within the timeout plus the slack of the last renewal
DetectedInBoundedTime == (Documented /\ blackAt > 0 /\ now >= blackAt + Tc + D + 1) => lost
DetectionNotEarly    == (lost /\ blackAt > 0 /\ Documented) => lostAt >= blackAt
=============================================================================
