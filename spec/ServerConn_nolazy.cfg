SPECIFICATION Spec
CONSTANTS
  UnaryH = {h1, h4}
  NotifH = {h2}
  StreamH = {h3}
  Causes = {"graceful", "fin", "rst", "srvcancel"}
  LazyFix = FALSE
  ReaderFix = TRUE
INVARIANT HandlersCancelled
INVARIANT NothingRetained
CHECK_DEADLOCK FALSE
