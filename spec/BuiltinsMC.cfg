SPECIFICATION Spec
CONSTANT RowSample <- Sample
CONSTANT Guards = TRUE
CONSTANT NPairs = 6
INVARIANT NeverCrashes
INVARIANT StepwiseAgrees
INVARIANT ModelSatisfiesC10
CHECK_DEADLOCK FALSE
