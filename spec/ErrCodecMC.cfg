SPECIFICATION Spec
CONSTANT RowSample <- Rows
INVARIANT ModelSatisfiesC11
CHECK_DEADLOCK FALSE
