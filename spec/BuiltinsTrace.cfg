SPECIFICATION TSpec
CONSTANT RowSample = {}
CONSTANT Guards = TRUE
INVARIANT Report
CHECK_DEADLOCK FALSE
