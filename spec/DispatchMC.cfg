SPECIFICATION Spec
CONSTANT NameSample <- Sample
CONSTANT NOrders = 6
CONSTANT NAliases = 40
INVARIANT StepwiseAgrees
INVARIANT ModelSatisfiesC12
CHECK_DEADLOCK FALSE
