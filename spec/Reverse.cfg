SPECIFICATION Spec
CONSTANTS
  Clients = {a, b, c}
  MaxCalls = 4
  PerConnection = TRUE
INVARIANT OwnClient
CHECK_DEADLOCK FALSE
