SPECIFICATION TSpec
CONSTANTS
  Replayable = FALSE
  RetryTagged = FALSE
  MaxAttempts = 100
INVARIANT HighWater
INVARIANT TraceInvs
POSTCONDITION Post
CHECK_DEADLOCK FALSE
