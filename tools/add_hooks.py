#!/usr/bin/env python3
"""One-shot helper used to insert the add-only vpoint() call sites into /repo (kept for reference)."""
import re, sys
def load(p): return open(p).read()
def func_span(s, sig):
    i = s.index(sig)
    j = s.find("\nfunc ", i+1)
    if j < 0: j = len(s)
    return i, j
def ins(s, sig, anchor, line, where="after", nth=1):
    i, j = func_span(s, sig)
    body = s[i:j]
    pos = -1
    for _ in range(nth):
        pos = body.index(anchor, pos+1)
    # line bounds of anchor
    ls = body.rfind("\n", 0, pos)+1
    # anchor may span several lines: end = end of the line where anchor ends
    le = body.find("\n", pos+len(anchor))
    indent = re.match(r"[ \t]*", body[ls:]).group(0)
    new = "".join(indent + l + "\n" for l in line.split("\n"))
    if where == "after":
        body = body[:le+1] + new + body[le+1:]
    else:
        body = body[:ls] + new + body[ls:]
    return s[:i] + body + s[j:]

p = "/repo/websocket.go"; s = load(p)
W = "func (c *wsConn) "
s = ins(s, W+"nextMessage()", "c.resetReadDeadline()", 'vpoint(c, "rd.next.pre")', "before")
s = ins(s, W+"nextMessage()", "c.incomingErr = err", 'vpoint(c, "rd.err", "err", err.Error())')
s = ins(s, W+"nextMessage()", 'c.incomingErr = errors.New("unsupported message type")', 'vpoint(c, "rd.err", "err", "unsupported message type")')
s = ins(s, W+"nextMessage()", "select {", 'vpoint(c, "rd.msg.pre")', "before")
s = ins(s, W+"nextWriter(", "defer c.writeLk.Unlock()", 'vpoint(c, "wl.enter", "w", "resp")\ndefer vpoint(c, "wl.exit", "w", "resp")')
s = ins(s, W+"sendRequest(", "defer c.writeLk.Unlock()", 'vpoint(c, "wl.enter", "w", "req", "method", req.Method, "id", req.ID)\ndefer vpoint(c, "wl.exit", "w", "req", "method", req.Method, "id", req.ID)')
H = W+"handleOutChans()"
s = ins(s, H, "registration := val.Interface().(outChanReg)", 'vpoint(c, "fwd.reg", "chid", registration.chID, "id", registration.reqID)')
s = ins(s, H, "continue", 'vpoint(c, "fwd.reg.done", "chid", registration.chID)', "before", nth=1)
s = ins(s, H, "// exiting channel closed - signals closed connection", 'vpoint(c, "fwd.exit")', "before")
s = ins(s, H, "id := caseToID[chosen-internal]", 'vpoint(c, "fwd.close", "chid", id)')
s = ins(s, H, "// forward message", 'vpoint(c, "fwd.val", "chid", caseToID[chosen-internal])')
s = ins(s, H, 'log.Warnf("sendRequest failed: %s", err)', 'vpoint(c, "fwd.exit")')
s = ins(s, W+"handleChanOut(", "c.spawnOutChanHandlerOnce.Do(func() {", 'vpoint(c, "chout.reg.pre", "id", req)', "before")
s = ins(s, W+"handleCtxAsync(", "<-actx.Done()", 'vpoint(c, "ctxasync.done", "id", id)')
s = ins(s, W+"cancelCtx(", "cf, ok := c.handling[id]", 'vpoint(c, "cancel.recv", "id", id, "found", ok)')
s = ins(s, W+"handleChanMessage(", "hnd, ok := c.chanHandlers[chid]", 'vpoint(c, "chanh.val", "chid", chid, "found", ok)')
s = ins(s, W+"handleChanClose(", "hnd, ok := c.chanHandlers[chid]", 'vpoint(c, "chanh.close", "chid", chid, "found", ok)')
R = W+"handleResponse("
s = ins(s, R, "c.inflightLk.Unlock()", 'vpoint(c, "resp.lookup", "id", frame.ID, "found", ok)', nth=1)
s = ins(s, R, "chanCtx, chHnd := req.retCh()", 'vpoint(c, "chanh.add.pre", "id", frame.ID, "chid", chid)', "before")
s = ins(s, R, "c.chanHandlers[chid] = &chanHandler{cb: chHnd}", 'vpoint(c, "chanh.add", "chid", chid, "id", frame.ID)')
s = ins(s, R, "req.ready <- clientResponse{", 'vpoint(c, "resp.deliver.pre", "id", frame.ID)', "before")
s = ins(s, R, "c.inflightLk.Lock()", 'vpoint(c, "resp.deliver", "id", frame.ID)', "before", nth=2)
s = ins(s, R, "delete(c.inflight, frame.ID)", 'vpoint(c, "inflight.del", "id", frame.ID)')
C = W+"handleCall("
s = ins(s, C, "c.handling[frame.ID] = cancel", 'vpoint(c, "handling.add", "id", frame.ID)')
s = ins(s, C, "delete(c.handling, frame.ID)", 'vpoint(c, "handling.done", "id", frame.ID)')
s = ins(s, C, "go c.handler.handle(", 'vpoint(c, "call.spawn", "id", frame.ID, "method", frame.Method)', "before")
F = W+"closeInFlight()"
s = ins(s, F, "c.inflightLk.Lock()", 'vpoint(c, "closeinflight.pre")', "before")
s = ins(s, F, "c.inflight = map[interface{}]clientRequest{}", 'vpoint(c, "closeinflight")')
s = ins(s, F, "c.handling = map[interface{}]context.CancelFunc{}", 'vpoint(c, "closehandling")')
K = W+"closeChans()"
s = ins(s, K, "c.chanHandlersLk.Lock()", 'vpoint(c, "closechans.pre")', "before", nth=1)
s = ins(s, K, "defer c.chanHandlersLk.Unlock()", 'defer vpoint(c, "closechans")')
s = ins(s, K, "delete(c.chanHandlers, chid)", 'vpoint(c, "chanh.closeall", "chid", chid)')
P = W+"setupPings()"
s = ins(s, P, "case c.pongs <- struct{}{}:", 'vpoint(c, "pong.recv")', "before", nth=1)
# the select line precedes; put before "select {" instead for both handlers
T = W+"tryReconnect("
s = ins(s, T, "// connection dropped unexpectedly, do our best to recover it", 'vpoint(c, "reconnect.begin")')
s = ins(s, T, "go func() {", 'vpoint(c, "redial.spawn")', "before")
s = ins(s, T, "time.Sleep(c.reconnectBackoff.next(attempts))", 'vpoint(c, "redial.sleep.pre", "attempt", attempts)', "before")
s = ins(s, T, "time.Sleep(c.reconnectBackoff.next(attempts))", 'vpoint(c, "redial.dial.pre", "attempt", attempts)')
s = ins(s, T, "return", 'vpoint(c, "redial.abort")', "before", nth=2)
s = ins(s, T, "select {", 'vpoint(c, "redial.dial", "ok", err == nil)', "before")
s = ins(s, T, "case <-ctx.Done():", 'vpoint(c, "redial.abort")')
s = ins(s, T, "c.writeLk.Lock()", 'vpoint(c, "wl.enter", "w", "swap")')
s = ins(s, T, "c.incomingErr = nil", 'vpoint(c, "redial.swap")')
s = ins(s, T, "c.writeLk.Unlock()", 'vpoint(c, "wl.exit", "w", "swap")', "before")
s = ins(s, T, "go c.nextMessage()", 'vpoint(c, "redial.reader")', "before")
RF = W+"readFrame("
s = ins(s, RF, "c.incomingErr = err", 'vpoint(c, "rd.readerr", "err", err.Error())')
s = ins(s, RF, "c.frameExecQueue <- buf", 'vpoint(c, "rd.queue", "n", len(buf))')
E = W+"frameExecutor("
s = ins(s, E, "return", 'vpoint(c, "exec.exit")', "before", nth=1)
s = ins(s, E, 'log.Warnw("failed to unmarshal frame", "error", err)', 'vpoint(c, "exec.bad", "why", "json")')
s = ins(s, E, 'log.Warnw("failed to normalize frame id", "error", err)', 'vpoint(c, "exec.bad", "why", "id")')
s = ins(s, E, "c.handleFrame(ctx, frame)", 'vpoint(c, "exec.pop", "method", frame.Method, "id", frame.ID, "isresult", frame.Result != nil, "iserror", frame.Error != nil)', "before")
s = ins(s, E, "c.handleFrame(ctx, frame)", 'vpoint(c, "exec.done")')
M = W+"handleWsConn("
s = ins(s, M, "c.registerCh = make(chan outChanReg)", 'defer vpoint(c, "exit.done")\nvpoint(c, "main.start")')
s = ins(s, M, "err := c.incomingErr", 'vpoint(c, "main.incoming.pre")', "before")
s = ins(s, M, "if ok {", 'vpoint(c, "main.incoming", "ok", ok, "err", err != nil)', "before")
s = ins(s, M, 'action = "read-error"', 'vpoint(c, "main.readerr")')
s = ins(s, M, 'log.Debugw("context cancelled"', 'vpoint(c, "main.ctxdone")', "before")
s = ins(s, M, 'action = fmt.Sprintf("send-request(%s,%v)", req.req.Method, req.req.ID)', 'vpoint(c, "main.req", "id", req.req.ID, "method", req.req.Method)')
s = ins(s, M, "if hasErr { // No conn?, immediate fail", 'vpoint(c, "main.failfast", "id", req.req.ID)')
s = ins(s, M, "c.inflight[req.req.ID] = req", 'vpoint(c, "inflight.add", "id", req.req.ID)')
s = ins(s, M, "serr := c.sendRequest(req.req)", 'vpoint(c, "write.req.pre", "id", req.req.ID, "method", req.req.Method)', "before")
s = ins(s, M, "serr := c.sendRequest(req.req)", 'vpoint(c, "write.req", "id", req.req.ID, "method", req.req.Method, "ok", serr == nil)')
s = ins(s, M, "req.ready <- resp", 'vpoint(c, "main.notifdone", "ok", serr == nil)', "before")
s = ins(s, M, 'action = "pong"', 'vpoint(c, "main.pong")')
s = ins(s, M, "c.writeLk.Lock()", 'vpoint(c, "main.timeout")\nvpoint(c, "wl.enter.pre", "w", "tclose")', "before", nth=2)
s = ins(s, M, "c.writeLk.Lock()", 'vpoint(c, "wl.enter", "w", "tclose")', nth=2)
s = ins(s, M, "c.writeLk.Unlock()", 'vpoint(c, "wl.exit", "w", "tclose")', "before", nth=3)
s = ins(s, M, "case <-c.stop:", 'vpoint(c, "main.stop")')
s = ins(s, M, "cmsg := websocket.FormatCloseMessage(websocket.CloseNormalClosure, \"\")", 'vpoint(c, "wl.enter", "w", "close")', "before")
s = ins(s, M, "c.writeLk.Unlock()", 'vpoint(c, "wl.exit", "w", "close")', "before", nth=4)
open(p, "w").write(s)
