#!/usr/bin/env python3
"""Regenerates /verif/MANIFEST.json from the table below (single source of truth for the interface)."""
import json, os, subprocess
V = os.path.dirname(os.path.dirname(os.path.abspath(__file__)))
props = [json.loads(l) for l in open(os.path.join(V, "properties.jsonl"))]

# property id -> (design_ref, text, level_note, technique)
BUILT = {k: (v["design_ref"], v["text"], v["level_note"], v["technique"]) for k, v in json.load(open(os.path.join(V, "tools", "built.json"))).items()}

hooks_commits = subprocess.run(["git", "-C", "/repo", "log", "--format=%h", "--grep=^verif:"], capture_output=True, text=True).stdout.split()
m = {
 "version": 1,
 "setup_cmd": "cd /verif && ./setup.sh",
 "hooks": {
  "guard": "verif",
  "enable": "go build -tags verif (harness module /verif/harness with `replace github.com/filecoin-project/go-jsonrpc => /repo`)",
  "baseline_off_cmd": "cd /repo && GOFLAGS=-mod=mod GOPROXY=off GOSUMDB=off GOTOOLCHAIN=local go test -json -vet=off -count=1 -timeout 25m ./...",
  "source_commits": hooks_commits,
  "add_only": True,
 },
 "engines": [
  {"name": "tlc", "path": "/opt/veriftools/tla/tla2tools.jar", "serves_properties": sorted(BUILT), "kind_free_text": "TLC model checker: exhaustive checking of the TLA+ modules in /verif/spec, table/behaviour export, trace validation"},
  {"name": "verifharness", "path": "/verif/harness", "serves_properties": sorted(BUILT), "kind_free_text": "Go conformance harness (built with -tags verif against /repo): replays TLC tables/behaviours into the real code and records traces"},
 ],
 "checks": [],
 "notes": "All verdicts come from TLC evaluating the property predicates of /verif/spec on traces recorded from /repo's working tree. exit 2 = tool failure (never a verdict). Known findings: /verif/known_findings.jsonl.",
 "not_applicable": [],
}
for p in props:
    pid = p["id"]
    if pid in BUILT:
        ref, text, note, tech = BUILT[pid]
        m["checks"].append({
         "property_id": pid,
         "quick_cmd": "./check %s quick" % pid,
         "thorough_cmd": "./check %s thorough" % pid,
         "evidence_file": "/verif/evidence/%s.json" % pid,
         "replay_cmd_template": "./check %s --replay {path}" % pid,
         "engine": "tlc",
         "level_claimed": {"category": "model_checking", "text": text, "design_ref": ref},
         "level_note": note,
         "technique": tech,
        })
    else:
        m["not_applicable"].append({"property_id": pid, "reason": "check not built yet (build in progress, see DESIGN.md section 11); not a claim that the technique cannot apply"})
json.dump(m, open(os.path.join(V, "MANIFEST.json"), "w"), indent=1)
print("checks:", len(m["checks"]), "not_applicable:", len(m["not_applicable"]))
