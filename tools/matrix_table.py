#!/usr/bin/env python3
"""matrix_table.py : prints the markdown table of DESIGN.md section 12 from seeded/MATRIX.json and the seeds' notes."""
import json, os, re
V = os.path.dirname(os.path.dirname(os.path.abspath(__file__)))
M = json.load(open(os.path.join(V, "seeded", "MATRIX.json")))
def title(seed):
    d = os.path.join(V, "seeded", seed)
    for f in ("note.md",):
        p = os.path.join(d, f)
        if os.path.exists(p):
            for line in open(p):
                line = line.strip().lstrip("#").strip()
                if line:
                    return line[:110]
    m = os.path.join(d, "meta.json")
    if os.path.exists(m):
        j = json.load(open(m))
        return (j.get("title") or j.get("what") or j.get("needs") or "")[:110].replace("\n", " ")
    return ""
def key(s):
    m = re.match(r"C(\d+)-(\d+)", s)
    return (0, int(m.group(1)), int(m.group(2))) if m else (1, s, 0)
print("| change | what it does (one line) | check: result |")
print("|---|---|---|")
for seed in sorted(M, key=key):
    res = []
    for chk, r in sorted(M[seed].items()):
        if r["rc"] == 1:
            res.append("%s: caught - %s" % (chk, r["first"][:80].replace("|", "/")))
        elif r["rc"] == 0:
            res.append("%s: MISSED" % chk)
        else:
            res.append("%s: rc=%s" % (chk, r["rc"]))
    print("| %s | %s | %s |" % (seed, title(seed).replace("|", "/"), "; ".join(res)))
