#!/usr/bin/env python3
"""matrix.py <seed-id>:<check>[,<check>...] ...   runs checks (quick tier) against seeded changes and records the outcome in
/verif/seeded/MATRIX.json ({seed: {check: {"rc":..,"wall":..,"first":..}}}). /repo is restored after every run."""
import json, os, subprocess, sys, time
V = os.path.dirname(os.path.dirname(os.path.abspath(__file__)))
MP = os.path.join(V, "seeded", "MATRIX.json")
M = json.load(open(MP)) if os.path.exists(MP) else {}
def sh(cmd, **kw): return subprocess.run(cmd, shell=True, stdout=subprocess.PIPE, stderr=subprocess.STDOUT, text=True, **kw)
for spec in sys.argv[1:]:
    seed, checks = spec.split(":")
    for chk in checks.split(","):
        assert sh("git -C /repo status --porcelain").stdout.strip() == "", "/repo not clean"
        r = sh("git -C /repo apply %s/seeded/%s/patch.diff" % (V, seed))
        if r.returncode != 0:
            print(seed, chk, "PATCH DOES NOT APPLY", r.stdout[-200:]); continue
        t = time.time()
        try:
            p = sh("cd %s && timeout 1500 ./check %s quick" % (V, chk), timeout=1600)
            rc, out = p.returncode, p.stdout
        except subprocess.TimeoutExpired:
            rc, out = 124, ""
        sh("git -C /repo checkout -- .")
        first = next((l.split("# ")[-1] for l in out.splitlines() if l.startswith("VIOLATION")), "")
        M.setdefault(seed, {})[chk] = {"rc": rc, "wall": round(time.time() - t, 1), "first": first[:160]}
        json.dump(M, open(MP, "w"), indent=1, sort_keys=True)
        print(seed, chk, "rc=%d" % rc, "%.0fs" % (time.time() - t), first[:120], flush=True)
