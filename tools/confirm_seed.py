#!/usr/bin/env python3
"""confirm_seed.py <ID> <n> : independently confirm a seeded change produced by a sub-agent and store it under
/verif/seeded/<ID>-<n>/ (patch.diff, demonstration, note, meta.json). Confirmed means, in a scratch worktree of /repo HEAD:
 the patch applies and builds; the existing suite passes with it; the demonstration fails with it and passes without it."""
import json, os, re, shutil, subprocess, sys, time
ID, n = sys.argv[1], sys.argv[2]
out_n = sys.argv[3] if len(sys.argv) > 3 else n        # number under which the seed is stored (later rounds continue the numbering)
src = os.path.join(os.environ.get("MUT_SRC", "/tmp/mut"), ID, "_out")
patch = os.path.join(src, "patch%s.diff" % n)
demo = os.path.join(src, "demo%s_test.go" % n)
note = os.path.join(src, "note%s.md" % n)
env = dict(os.environ, GOFLAGS="-mod=mod", GOPROXY="off", GOSUMDB="off", GOTOOLCHAIN="local")
wt = "/tmp/seedchk/%s-%s" % (ID, out_n)
def sh(cmd, cwd=wt, timeout=900):
    p = subprocess.run(cmd, shell=True, cwd=cwd, env=env, stdout=subprocess.PIPE, stderr=subprocess.STDOUT, text=True, timeout=timeout)
    return p.returncode, p.stdout
os.makedirs("/tmp/seedchk", exist_ok=True)
subprocess.run("git -C /repo worktree remove --force %s" % wt, shell=True, stdout=subprocess.DEVNULL, stderr=subprocess.DEVNULL)
rc, out = sh("git -C /repo worktree add -q --detach %s HEAD" % wt, cwd="/repo")
meta = {"id": "%s-%s" % (ID, out_n), "property": ID, "source": "independent sub-agent given only the property text", "base": subprocess.run("git -C /repo rev-parse --short HEAD", shell=True, capture_output=True, text=True).stdout.strip()}
try:
    if not os.path.exists(patch) or not os.path.exists(demo):
        raise SystemExit("missing patch/demo for %s %s" % (ID, n))
    rc, out = sh("git apply --3way %s || git apply %s" % (patch, patch))
    if rc != 0: raise SystemExit("patch does not apply: " + out[-500:])
    sh("git diff HEAD > /tmp/seedchk/%s-%s.patch" % (ID, out_n))
    rc, out = sh("go build ./... && go vet ./... >/dev/null 2>&1; go build ./...")
    if rc != 0: raise SystemExit("does not build: " + out[-500:])
    rc, out = sh("go test -count=1 ./... 2>&1 | tail -5")
    suite_ok = rc == 0 and "FAIL" not in out
    meta["suite_with_patch"] = "pass" if suite_ok else "FAIL: " + out[-300:]
    pkgline = [l for l in open(demo) if l.startswith("package ")][0].split()[1]
    sub = {"jsonrpc": ".", "jsonrpc_test": ".", "auth": "auth", "auth_test": "auth", "httpio": "httpio", "httpio_test": "httpio"}.get(pkgline, ".")
    dst = os.path.join(wt, sub, "zz_demo_test.go")
    shutil.copy(demo, dst)
    rc1, out1 = sh("go test -count=1 -run 'Demo' -timeout 180s ./%s 2>&1 | tail -15" % sub)
    fails_with = ("FAIL" in out1 or "panic" in out1) and "no test files" not in out1
    meta["demo_with_patch"] = "fails" if fails_with else "PASSES: " + out1[-300:]
    sh("git reset -q --hard HEAD")
    rc2, out2 = sh("go test -count=1 -run 'Demo' -timeout 180s ./%s 2>&1 | tail -15" % sub)
    passes_without = ("ok" in out2) and "FAIL" not in out2
    meta["demo_without_patch"] = "passes" if passes_without else "FAILS: " + out2[-300:]
    meta["confirmed"] = bool(suite_ok and fails_with and passes_without)
    meta["ran"] = ["git apply patch.diff", "go test -count=1 ./...", "go test -run Demo ./%s (with patch, then without)" % sub]
    if os.path.exists(note):
        txt = open(note).read()
        meta["needs"] = txt[:1500]
    outdir = "/verif/seeded/%s-%s" % (ID, out_n)
    if meta["confirmed"]:
        os.makedirs(outdir, exist_ok=True)
        shutil.copy("/tmp/seedchk/%s-%s.patch" % (ID, out_n), os.path.join(outdir, "patch.diff"))
        shutil.copy(demo, os.path.join(outdir, "demo_test.go.txt"))
        if os.path.exists(note): shutil.copy(note, os.path.join(outdir, "note.md"))
        json.dump(meta, open(os.path.join(outdir, "meta.json"), "w"), indent=1)
    print(json.dumps({k: meta[k] for k in ("id", "confirmed", "suite_with_patch", "demo_with_patch", "demo_without_patch")}))
finally:
    subprocess.run("git -C /repo worktree remove --force %s" % wt, shell=True, stdout=subprocess.DEVNULL, stderr=subprocess.DEVNULL)
    try: os.remove("/tmp/seedchk/%s-%s.patch" % (ID, out_n))
    except OSError: pass
