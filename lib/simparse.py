"""Parser for the behaviour files written by `tlc -simulate file=<prefix>,num=N` (TLA text, one
`\\* <Action(args) line ...>` header per state followed by the state's conjuncts)."""
import glob
import os
import re

HDR = re.compile(r"^\\\* <(\w+)(?:\(([^)]*)\))? line ")


def parse_behaviour(path):
    """Returns (init_state_text, [(action, [args...]), ...]) for one behaviour file."""
    steps = []
    init_lines = []
    state = 0
    with open(path) as f:
        for line in f:
            m = HDR.match(line)
            if m:
                state += 1
                if m.group(1) != "Init":
                    args = [a.strip() for a in (m.group(2) or "").split(",") if a.strip()]
                    steps.append((m.group(1), args))
                continue
            if state == 1:
                init_lines.append(line.rstrip("\n"))
    return "\n".join(init_lines), steps


def behaviours(prefix):
    out = []
    for p in sorted(glob.glob(prefix + "_*")):
        if os.path.isfile(p):
            out.append(parse_behaviour(p))
    return out


def fun_of(init_text, var):
    """Parses `var = (a :> 1 @@ b :> 2)` (integer or string values) from a state."""
    m = re.search(r"/\\ %s = \((.*?)\)\s*$" % re.escape(var), init_text, re.M)
    if not m:
        return {}
    out = {}
    for part in m.group(1).split("@@"):
        k, v = part.split(":>")
        v = v.strip()
        out[k.strip()] = int(v) if re.fullmatch(r"-?\d+", v) else v.strip('"')
    return out
