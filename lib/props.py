"""Per-property check definitions (see DESIGN.md section 6)."""
import json
import os
import random

import vp

CHECKS = {}


def check(pid):
    def deco(f):
        CHECKS[pid] = f
        return f
    return deco


def seeded_slice(rows, seed, frac, key=None):
    """Deterministic seed-dependent subset of rows (quick tier)."""
    rnd = random.Random(seed)
    return [r for r in rows if rnd.random() < frac]


# --------------------------------------------------------------------------------------------- C19
@check("C19")
def c19(run, replay):
    run.assumptions += [
        "3-permission universe is representative: the code only compares permissions for equality",
        "the HTTP layer is net/http/httptest (no real socket)",
    ]
    vp.table_check(
        run, "AuthMC", "AuthTrace", "c19",
        rule="all 768 PermissionedProxy rows and 1134 auth.Handler rows of Auth.tla, each concretised with seeded "
             "permission names, slice order/duplicates, nil vs empty slices, fresh and shared handler instances; "
             "distinct = distinct abstract rows",
        sig=lambda t: "row %s" % json.dumps(t["row"], sort_keys=True))


# --------------------------------------------------------------------------------------------- C12
@check("C12")
def c12(run, replay):
    run.assumptions += [
        "universe: namespaces {A, B, ''} x methods {Foo, Bar} x 5 formatters x <=1 alias entry over all 24 candidate names; "
        "name rows are a TLC RandomSubset sample per dimension (orders x alias tables), client and arity rows are complete",
        "decodability of a JSON value into a declared Go type is decided by encoding/json (oracle inside the harness)",
    ]
    thorough = run.tier == "thorough"
    wd = run.dir("work")
    cfg = open(os.path.join(vp.SPEC, "DispatchMC.cfg")).read()
    cfg = cfg.replace("NOrders = 6", "NOrders = %d" % (16 if thorough else 6)).replace("NAliases = 40", "NAliases = %d" % (250 if thorough else 40))
    for f in os.listdir(vp.SPEC):
        if f.startswith("Dispatch"):
            import shutil
            shutil.copy(os.path.join(vp.SPEC, f), wd)
    with open(os.path.join(wd, "DispatchRun.cfg"), "w") as f:
        f.write(cfg)
    os.utime(os.path.join(wd, "DispatchRun.cfg"))
    vp.table_check(
        run, "DispatchMC", "DispatchTrace", "c12", mc_cfg="DispatchRun.cfg",
        rule="rows of Dispatch.tla (name dispatch x alias x formatter x registration order; client/server naming; arity and "
             "per-parameter decodability), each executed against a real RPCServer / custom-transport client; distinct = distinct abstract rows",
        sig=lambda t: "row %s" % json.dumps(t["row"], sort_keys=True),
        mc_timeout=1200, trace_timeout=1800)


# --------------------------------------------------------------------------------------------- C09
def _cfg_with(run, wd, src_cfg, dst_cfg, repl):
    import shutil
    for f in os.listdir(vp.SPEC):
        if f.endswith(".tla") or f.endswith(".cfg"):
            shutil.copy(os.path.join(vp.SPEC, f), wd)
    cfg = open(os.path.join(vp.SPEC, src_cfg)).read()
    for a, b in repl:
        assert a in cfg, (a, src_cfg)
        cfg = cfg.replace(a, b)
    with open(os.path.join(wd, dst_cfg), "w") as f:
        f.write(cfg)


@check("C09")
def c09(run, replay):
    run.assumptions += [
        "request grammar: 8 id classes x 14 request classes per element; bodies empty/whitespace/garbage/non-object/null/"
        "empty batch/batch with malformed element/single/batch of 1..3; batches are built from a seeded TLC sample of element types",
        "a WebSocket frame without a method member is a response, not a request frame (protocol design)",
        "tolerated, not demanded: error reply with id null to a notification that failed (HTTP only)",
        "ids are chosen exactly representable in float64 as the property requires",
    ]
    thorough = run.tier == "thorough"
    wd = run.dir("work")
    _cfg_with(run, wd, "HttpReplyMC.cfg", "HttpReplyRun.cfg", [("NElems = 5", "NElems = %d" % (16 if thorough else 5))])
    vp.table_check(
        run, "HttpReplyMC", "HttpReplyTrace", "c09", mc_cfg="HttpReplyRun.cfg",
        rule="rows of HttpReply.tla concretised to real bytes (seeded ids, field order, padding, parameter values) and sent "
             "through RPCServer.HandleRequest, real HTTP and WebSocket frames; distinct = distinct abstract rows",
        sig=lambda t: "row %s" % json.dumps(t["row"], sort_keys=True),
        mc_timeout=1200, trace_timeout=1800, harness_timeout=1800)


# --------------------------------------------------------------------------------------------- C10
@check("C10")
def c10(run, replay):
    run.assumptions += [
        "hostile input = every single frame of the Builtins.tla grammar (605 frame shapes) sent to a real server by a raw WebSocket "
        "client and to a real client by a fake server, plus a seeded TLC sample of two-frame sequences; endpoints are hosted in a child process",
        "absence of an effect is judged after a probe call has round-tripped on the same connection (frames are executed in order)",
        "WebSocket-level protocol violations (RSV bit, reserved opcode, malformed close, fragmented control frame) may close the connection",
    ]
    thorough = run.tier == "thorough"
    wd = run.dir("work")
    _cfg_with(run, wd, "BuiltinsMC.cfg", "BuiltinsRun.cfg", [("NPairs = 6", "NPairs = %d" % (24 if thorough else 6))])
    # non-vacuity: without the guards the model itself reaches a crash state
    nog = run.tlc(wd, "BuiltinsMC.tla", "BuiltinsMC_noguards.cfg", timeout=600, tag="model_runs")
    if nog["violated"] != "NeverCrashes":
        raise vp.ToolFailure("self-test: unguarded Builtins model should violate NeverCrashes, got %s" % nog["violated"])
    vp.table_check(
        run, "BuiltinsMC", "BuiltinsTrace", "c10", mc_cfg="BuiltinsRun.cfg",
        rule="rows of Builtins.tla: hostile frame (sequence) x role {server, client} with a live call / stream / in-flight request, "
             "and HTTP body sizes around each limit x padding kind; distinct = distinct abstract rows",
        sig=lambda t: "row %s" % json.dumps(t["row"], sort_keys=True),
        mc_timeout=1200, trace_timeout=1800, harness_timeout=3000)
    # the peer drops the connection at the two moments a frame it just sent is being acted upon (gate-forced): the client neither
    # crashes nor wedges
    scen = [{"sc": "trap.chanval", "args": {}}, {"sc": "trap.chanclose", "args": {}}]
    trace, viol = run_ws_scenarios(run, wd, scen, "c10ws", timeout=1200)
    report_ws(run, trace, viol, "C10", scen, "peer")
    for v in viol:
        if v[1] == "C03" and v[2] in ("call-never-returned", "probe-hung") and 0 < v[0] <= len(scen):
            run.violation("peer %s: client wedged (%s)" % (scen[v[0] - 1]["sc"], v[2]), "client-wedged",
                          {"property": "C10", "scenario": scen[v[0] - 1], "clause": v[2], "call": v[3]})


# --------------------------------------------------------------------------------------------- C11
@check("C11")
def c11(run, replay):
    run.assumptions += [
        "error classes: nil, unregistered, registered plain (value/pointer form), marshalable (pointer form; a value-form type with a "
        "pointer-receiver UnmarshalJSON is not a marshalable value in Go and travels as a plain type), codec, and the four failing "
        "conversions; tables: same code both sides, client only, server only, disjoint codes, none; x {error, (value,error)} x {http, ws, custom}",
        "for registered plain types only the dynamic type is compared (the library transfers no content for them by design)",
        "messages are seeded valid-UTF-8 strings incl. empty, quotes, HTML-significant and control characters",
    ]
    vp.table_check(
        run, "ErrCodecMC", "ErrCodecTrace", "c11",
        rule="all 495 rows of ErrCodec.tla, each run through a real client/server pair with seeded messages; distinct = distinct abstract rows",
        sig=lambda t: "row %s" % json.dumps(t["row"], sort_keys=True))


# --------------------------------------------------------------------------------------------- C20
C20_PATTERNS = ["readall", "small", "bytewise", "pasteof", "pasteofslow", "eofclose", "eofcloseread", "closefirst", "partialclose"]
C20_LENS = [0, 1, 511, 512, 513, 4095, 4096, 4097, 32767, 32768, 32769, 65537, 1 << 20]


def c20_sim_scenarios(run, wd, num):
    """TLC-simulated behaviours of ReaderParam.tla projected to harness scenarios (arrival order + handler script)."""
    import simparse
    simdir = os.path.join(wd, "sim")
    os.makedirs(simdir, exist_ok=True)
    res = run.tlc(wd, "ReaderParam.tla", "ReaderParamSim.cfg", workers=1, timeout=300, tag="model_runs",
                  extra=["-simulate", "file=%s/b,num=%d" % (simdir, num), "-depth", "60", "-seed", str(run.seed)])
    if res["rc"] != 0:
        raise vp.ToolFailure("TLC simulation of ReaderParam failed:\n" + res["out"][-2000:])
    scen = []
    for init, steps in simparse.behaviours(os.path.join(simdir, "b")):
        lens = simparse.fun_of(init, "len")
        calls, order = [], None
        for c in sorted(lens):
            ops, seen_eof_reads, started = "", 0, False
            firsts = [a for a, args in steps if args == [c] and a in ("UpArrive", "DecArrive")]
            if order is None and firsts:
                order = "upfirst" if firsts[0] == "UpArrive" else "decfirst"
            pending_pause = False
            reads = 0
            for a, args in steps:
                if args != [c]:
                    continue
                if a == "HStart":
                    started = True
                elif a == "ReadBegin":
                    ops += ("s" if pending_pause else "") + "r"
                    pending_pause = False
                    reads += 1
                elif a == "HClose":
                    ops += "c"
                elif a == "UpReturn":
                    pending_pause = True
            if not started:
                ops = ops or "r"
            calls.append({"len": lens[c] * 1024, "pattern": "ops:" + ops, "src": "mem"})
        scen.append({"transport": "http", "order": order or "free", "calls": calls, "from": "tlc-simulate"})
    return scen


@check("C20")
def c20(run, replay):
    run.assumptions += [
        "payload lengths sampled around 512 / 4 KiB / 32 KiB buffers up to 1 MiB (4 MiB thorough), all byte values (seeded random)",
        "arrival order of upload and request is forced with gates outside the library (RPC round-tripper waits for the upload / "
        "upload handler wrapper waits for the RPC request plus 15 ms); over WebSocket the order is left to the scheduler",
        "a Read returning data together with an error is recorded as two reads",
        "the upload is considered completed before consumption only if no Read or Close of the handler had even begun",
    ]
    thorough = run.tier == "thorough"
    wd = run.dir("work")
    rnd = random.Random(run.seed)
    # design level: ReaderParam.tla, both repairs on (must hold) and each repair off (must be violated: non-vacuity)
    run.model_check(wd, "ReaderParam.tla", "ReaderParam.cfg", timeout=900)
    for cfg, inv in (("ReaderParam_noonce.cfg", "NoDoubleClose"), ("ReaderParam_nosticky.cfg", "EofConsistent")):
        r = run.tlc(wd, "ReaderParam.tla", cfg, timeout=600, tag="model_runs")
        if r["violated"] != inv:
            raise vp.ToolFailure("self-test: %s should violate %s, got %s" % (cfg, inv, r["violated"]))
    # scenarios: named patterns x lengths x order x transport (seeded slice in quick), concurrent mixes, TLC-simulated scripts
    scen = []
    lens = C20_LENS + ([4 << 20] if thorough else [])
    for p in C20_PATTERNS:
        for L in lens:
            if p == "bytewise" and L > 5000:
                continue
            if not thorough and rnd.random() > 0.55:
                continue
            tr = rnd.choice(["ws", "http"])
            order = rnd.choice(["free", "upfirst", "decfirst"]) if tr == "http" else "free"
            scen.append({"transport": tr, "order": order,
                         "calls": [{"len": L, "pattern": p, "src": rnd.choice(["mem", "slow", "pipe"]) if L < 70000 else "mem"}]})
    for _ in range(40 if thorough else 12):
        calls = [{"len": rnd.choice(C20_LENS[:11]), "pattern": rnd.choice(C20_PATTERNS), "src": "mem"} for _ in range(rnd.choice([2, 3]))]
        scen.append({"transport": rnd.choice(["ws", "http"]), "order": "free", "calls": calls})
    # a reader that knows its size, handed over partly consumed
    for src in ("partbytes", "partstr", "section"):
        for tr in (("ws", "http") if thorough else (rnd.choice(["ws", "http"]),)):
            scen.append({"transport": tr, "order": "free", "calls": [{"len": rnd.choice([1, 100, 5000]), "pattern": rnd.choice(["readall", "pasteof"]), "src": src}]})
    # a handler that keeps reading after EOF while the next call's upload (which arrived after its own was complete) is being consumed
    for tr in ("ws", "http"):
        for L2 in ([64, 5000] if thorough else [rnd.choice([64, 5000])]):
            for procs in (1, 1, 0, 0):      # repeated, with one P and with all: per-P caches make reuse of a freed object a matter of placement
                scen.append({"transport": tr, "order": "free", "procs": procs,
                             "calls": [{"len": 100, "pattern": "pasteofpeer", "src": "mem"}, {"len": L2, "pattern": "small", "src": "slow", "after_eof_of": 1}]})
    # the upload and the request carrying its id reach the server at the same instant (offsets of 0-80 microseconds either way)
    for _ in range(200 if thorough else 40):
        scen.append({"transport": "http", "order": "tie", "calls": [{"len": rnd.choice([1, 100]), "pattern": "readall", "src": "mem"}]})
    # ... and in process, behind a spin barrier, offsets swept in quarter-microsecond steps
    scen.append({"transport": "inproc", "order": "tie", "tierounds": 30000 if thorough else 8000, "calls": []})
    # handlers that wait for each other before reading: every upload must be able to proceed independently
    for k in ([3, 4, 4] if thorough else [3, 4]):
        scen.append({"transport": rnd.choice(["ws", "http"]), "order": "free",
                     "calls": [{"len": rnd.choice([1, 512, 4097]), "pattern": "barrier+" + rnd.choice(["readall", "pasteof", "eofclose"]), "src": "mem"}
                               for _ in range(k)]})
    with open(os.path.join(wd, "scen.ndjson"), "w") as f:
        for s in scen:
            f.write(json.dumps(s) + "\n")
    sim = c20_sim_scenarios(run, wd, 400 if thorough else 80)
    with open(os.path.join(wd, "scen_sim.ndjson"), "w") as f:
        for s in sim:
            f.write(json.dumps(s) + "\n")

    def verdict_pass(tracefile, label):
        import shutil
        shutil.copy(os.path.join(wd, tracefile), os.path.join(wd, "trace.ndjson"))
        res = run.validate_trace(wd, "ReaderParamObs.tla", "ReaderParamObs.cfg", timeout=1800)
        trace = vp.read_ndjson(os.path.join(wd, tracefile))
        scs = [t for t in trace if t.get("ev") == "reset"]
        run.cov["traces_validated_against_impl"] += len(scs)
        run.cov["evaluations"] += sum(1 for t in trace if t.get("ev") == "callstart")
        for v in res.get("viol", []):
            scn, call, clause = v
            evs, cur = [], None
            for t in trace:
                if t.get("ev") == "reset":
                    cur = t.get("sc")
                if cur == scn:
                    evs.append(t)
            run.violation("%s: %s" % (label, clause), clause, {"property": "C20", "scenario": scn, "call": call, "clause": clause,
                                                                "events": evs[:400], "seed": run.seed})
        return trace

    run.harness("c20", wd, infile="scen.ndjson", outfile="trace_a.ndjson", timeout=1800)
    ta = verdict_pass("trace_a.ndjson", "pattern")
    run.harness("c20", wd, infile="scen_sim.ndjson", outfile="trace_b.ndjson", timeout=1800)
    tb = verdict_pass("trace_b.ndjson", "tlc-script")
    # binding: the TLC-generated scripts, executed by the real code, must be behaviours of ReaderParam
    import shutil
    shutil.copy(os.path.join(wd, "trace_b.ndjson"), os.path.join(wd, "trace.ndjson"))
    bj = os.path.join(wd, "binding.json")
    if os.path.exists(bj):
        os.remove(bj)
    r = run.tlc(wd, "ReaderParamTrace.tla", "ReaderParamTrace.cfg", workers=1, timeout=1800, tag="trace_runs")
    if r["timeout"]:
        raise vp.ToolFailure("binding validation timed out")
    accepted = os.path.exists(bj)
    run.cov["binding"] = {"trace_lines": len(tb), "accepted": accepted, "violated": r["violated"]}
    if r["violated"] == "TraceInvs":
        run.violation("binding: design invariant of ReaderParam violated on a real execution", "TraceInvs", {"property": "C20", "tlc": r["out"][-3000:]})
    elif not accepted:
        import re as _re
        m = _re.search(r'"HIGHWATER", (\d+)', r["out"])
        hw = int(m.group(1)) if m else 0
        run.cov["drift"] += 1
        run.cov["drift_samples"] = tb[max(0, hw - 6):hw + 2]
        print("DRIFT property=C20 binding: real execution is not a behaviour of ReaderParam.tla at trace line %d (verdicts come from P_C20)" % hw)
    run.cov["distinct_nontrivial"] = len(set(json.dumps(s, sort_keys=True) for s in scen + sim))
    run.cov["rule"] = ("scenarios = named read pattern x payload length x arrival order x transport, concurrent mixes, and handler scripts projected "
                       "from TLC-simulated behaviours of ReaderParam.tla; distinct = distinct scenario descriptions")
    for t in (ta[:1] + [x for x in tb if x.get("ev") == "reset"][:2] + [x for x in tb if x.get("ev") == "readend"][:2]):
        run.sample(t)


# --------------------------------------------------------------------------------------------- C01
@check("C01")
def c01(run, replay):
    run.assumptions += [
        "values are sampled (seeded) from a type palette: int/uint extremes, finite floats incl. -0 / 1e308 / denormals, strings with HTML-significant, "
        "control and multi-byte characters, []byte, nil vs empty slices and maps, nil pointers, nested and embedded structs, json.RawMessage, custom "
        "(Un)Marshalers incl. a tri-state null-sensitive type, and a custom param encoder/decoder pair",
        "the JSON round trip that defines the expected value is computed with encoding/json directly (trusted)",
        "calls are issued one at a time here (concurrency is C02's subject)",
    ]
    vp.table_check(
        run, "SignatureMC", "SignatureTrace", "c01",
        rule="all 1050 rows of Signature.tla (0-3 params x ctx x raw params x return shape x handler outcome x transport x formatter), "
             "each with several seeded value tuples; distinct = distinct abstract rows",
        sig=lambda t: "row %s" % json.dumps(t["row"], sort_keys=True), harness_timeout=1800, trace_timeout=1800)


# --------------------------------------------------------------------------------------------- protocol properties (WsRpc / Obs)
HOOK_POINTS_REQ = ["inflight.add", "write.req.pre", "write.req", "main.req", "resp.lookup", "resp.deliver.pre", "resp.deliver", "inflight.del",
                   "exec.pop", "rd.msg.pre", "rd.queue", "main.incoming", "req.enq.pre", "req.enq", "req.ret", "cancel.enq.pre", "call.spawn",
                   "handling.add", "h.call.pre", "h.ret", "h.resp.pre", "lazy.acquire.pre"]


PATIENCE_CLAUSES = ("handler-context-not-cancelled-at-connection-end", "cancellation-never-reached-the-handler",
                    "reverse-call-blocked-after-connection-loss", "reverse-call-of-a-notification-handler-unanswered",
                    "goroutines-retained-for-dead-connection")


def run_ws_scenarios(run, wd, scen, tag, hooks=False, timeout=1800, also_confirm=None):
    """Runs protocol scenarios against the real code and lets TLC (ObsTrace) evaluate every property predicate on the recorded
    events. Returns (trace, violations) with violations as [scenario, property, clause, call]."""
    import shutil
    sf = os.path.join(wd, "scen_%s.ndjson" % tag)
    with open(sf, "w") as f:
        for s in scen:
            f.write(json.dumps(s) + "\n")
    tf = "trace_%s.ndjson" % tag
    run.harness("wsp", wd, infile=os.path.basename(sf), outfile=tf, timeout=timeout, args={"hooks": "1"} if hooks else None)
    shutil.copy(os.path.join(wd, tf), os.path.join(wd, "trace.ndjson"))
    res = run.validate_trace(wd, "ObsTrace.tla", "ObsTrace.cfg", timeout=1800)
    trace = vp.read_ndjson(os.path.join(wd, tf))
    run.cov["traces_validated_against_impl"] += len(scen)
    run.cov["evaluations"] += len(scen)
    viol = res.get("viol", [])
    # Clauses that say "X did not happen while a handler waited for it" rest on a harness timer running out.  On a machine that
    # is starved (all checks at once, JVMs competing for memory) a process can stand still for seconds and the timer runs out
    # although the library did its part.  Such an observation is confirmed before it is reported: the scenario is run again on
    # its own three more times, and the clause is reported if it shows up again in any of them (a defect of this kind shows
    # up again: the thing never happens, or - if a race is involved - fails to happen often).
    timed = [v for v in viol if (any(str(v[2]).startswith(c) for c in PATIENCE_CLAUSES) or (also_confirm and also_confirm(v))) and 0 < v[0] <= len(scen)]
    if timed and not tag.endswith("confirm"):
        idx = [i for i in sorted({v[0] for v in timed}) for _ in range(3)]   # three more runs each: a racy defect gets its chances
        ctf = "trace_%sconfirm.ndjson" % tag
        csf = os.path.join(wd, "scen_%sconfirm.ndjson" % tag)
        with open(csf, "w") as f:
            for i in idx:
                f.write(json.dumps(scen[i - 1]) + "\n")
        run.harness("wsp", wd, infile=os.path.basename(csf), outfile=ctf, timeout=timeout, args={"hooks": "1"} if hooks else None)
        shutil.copy(os.path.join(wd, ctf), os.path.join(wd, "trace.ndjson"))
        res2 = run.validate_trace(wd, "ObsTrace.tla", "ObsTrace.cfg", timeout=1800)
        shutil.copy(os.path.join(wd, tf), os.path.join(wd, "trace.ndjson"))
        confirmed = {(idx[v[0] - 1], v[1], v[2]) for v in res2.get("viol", []) if 0 < v[0] <= len(idx)}
        dropped = [v for v in timed if (v[0], v[1], v[2]) not in confirmed]
        if dropped:
            run.cov.setdefault("unconfirmed_timing_observations", []).extend(
                [{"scenario": scen[v[0] - 1], "property": v[1], "clause": v[2]} for v in dropped][:5])
            vp.log("%d patience-based observation(s) did not repeat when the scenario was run again on its own; not reported" % len(dropped))
        viol = [v for v in viol if v not in dropped]
    return trace, viol


def report_ws(run, trace, viol, prop, scen, label):
    """Turns ObsTrace violations of `prop` into verdicts; violations of other properties seen on the same scenarios are
    recorded in the evidence (they are reported by that property's own check)."""
    by_sc = {}
    cur = None
    for t in trace:
        if t.get("ev") == "reset":
            cur = t.get("sc")
            by_sc[cur] = []
        if cur is not None:
            by_sc[cur].append(t)
    cross = {}
    for v in viol:
        scn, p, clause, call = v
        if p != prop:
            cross["%s:%s" % (p, clause)] = cross.get("%s:%s" % (p, clause), 0) + 1
            continue
        evs = by_sc.get(scn, [])
        name = evs[0].get("name") if evs else "?"
        run.violation("%s %s: %s" % (label, name, clause), clause,
                      {"property": prop, "scenario": scen[scn - 1] if 0 < scn <= len(scen) else None, "clause": clause, "call": call,
                       "events": [e for e in evs if not str(e.get("ev", "")).startswith("h:")][:300], "seed": run.seed})
    if cross:
        run.cov.setdefault("other_property_clauses_seen", {}).update(cross)


def perms(n):
    import itertools
    return [list(p) for p in itertools.permutations(range(1, n + 1))]


def sim_behaviours(run, wd, module, cfg, num, depth, name):
    import simparse
    simdir = os.path.join(wd, "sim_" + name)
    os.makedirs(simdir, exist_ok=True)
    res = run.tlc(wd, module, cfg, workers=1, timeout=600, tag="model_runs",
                  extra=["-simulate", "file=%s/b,num=%d" % (simdir, num), "-depth", str(depth), "-seed", str(run.seed)])
    if res["rc"] != 0:
        raise vp.ToolFailure("TLC simulation of %s failed:\n%s" % (module, res["out"][-2000:]))
    return simparse.behaviours(os.path.join(simdir, "b"))


@check("C02")
def c02(run, replay):
    run.assumptions += [
        "model: WsRpc.tla, 3 concurrent unary calls (4 with a notification in thorough), caller cancellation allowed, no faults; every "
        "interleaving of registration, write, server completion order, read, lookup, delivery, delete",
        "real executions: every completion order for N <= 4 callers (ws) and N = 3 (http), mixed method kinds incl. reverse calls, "
        "TLC-simulated scripts (start order, cancelled set, completion order), and stress runs with seeded delays at the hook points "
        "around in-flight registration, request write, response lookup and delivery",
        "quiescence = a probe call issued afterwards round-tripped; outstanding calls get a 2 s grace before they are reported",
    ]
    thorough = run.tier == "thorough"
    wd = run.dir("work")
    rnd = random.Random(run.seed)
    run.model_check(wd, "WsRpc.tla", "WsRpc_c02.cfg" if thorough else "WsRpc_c02q.cfg", timeout=1800)
    tok = {"u1": 1, "u2": 2, "u3": 3}
    scen = []
    for n in (2, 3, 4):
        for p in perms(n):
            scen.append({"sc": "c02.perm", "args": {"n": n, "perm": p, "transport": "ws"}})
    for p in perms(3):
        scen.append({"sc": "c02.perm", "args": {"n": 3, "perm": p, "transport": "http"}})
    for p in rnd.sample(perms(4), 6 if not thorough else 24):
        scen.append({"sc": "c02.perm", "args": {"n": 4, "perm": p, "transport": "ws", "mixed": True, "reverse": True}})
    # TLC-simulated behaviours projected to scripts
    for init, steps in sim_behaviours(run, wd, "WsRpc.tla", "WsRpc_c02sim.cfg", 200 if thorough else 60, 80, "c02"):
        order = [tok[a[0]] for act, a in steps if act == "CallStart" and a and a[0] in tok]
        perm = [tok[a[1]] for act, a in steps if act == "SrvRespond" and len(a) > 1 and a[1] in tok]
        started = set()
        cancel = []
        for act, a in steps:
            if act == "SrvRecv":
                pass
            if act == "CtxCancel" and a[0] in tok and tok[a[0]] not in cancel:
                cancel.append(tok[a[0]])
        if order:
            scen.append({"sc": "c02.script", "args": {"order": order, "perm": perm, "cancel": [c for c in cancel if c in order], "transport": "ws"}})
    for i in range(12 if not thorough else 60):
        scen.append({"sc": "c02.stress", "args": {"n": rnd.choice([8, 16, 32, 64]), "transport": "ws", "cancel": i % 2 == 0, "p": rnd.choice([0.1, 0.3, 0.6]),
                                                  "delay": rnd.sample(HOOK_POINTS_REQ, 6)}})
    for i in range(8 if not thorough else 30):
        scen.append({"sc": "c02.stress", "args": {"n": rnd.choice([8, 32, 64]), "transport": "http", "cancel": i % 2 == 0, "procs": 1 if i % 2 == 0 else 0}})
    for i in range(4 if not thorough else 16):
        scen.append({"sc": "c02.stress", "args": {"n": rnd.choice([8, 16]), "transport": rnd.choice(["http", "http", "ws"]), "allbig": True, "procs": 1 if i % 2 == 0 else 0}})
    for i in range(4 if not thorough else 12):
        scen.append({"sc": "c02.stress", "args": {"n": rnd.choice([16, 64]), "transport": "ws", "cancel": True, "procs": 1, "p": 0.3,
                                                  "delay": rnd.sample(HOOK_POINTS_REQ, 6)}})
    # equally long large requests back to back; many callers giving up at the moment the connection is lost
    for i in range(2 if not thorough else 6):
        scen.append({"sc": "c02.stress", "args": {"n": rnd.choice([16, 32]), "transport": "ws", "allbigreq": True, "reqsize": rnd.choice([40000, 70000, 200000]),
                                                  "procs": 1 if i % 2 == 0 else 0}})
    scen.append({"sc": "c03.cancelkill", "args": {"n": 200, "skewus": 200}})
    # a request that cannot be encoded is issued while others are in flight
    for n, bad in ((3, 1), (4, 2)):
        scen.append({"sc": "c02.badwrite", "args": {"n": n, "bad": bad}})
    trace, viol = run_ws_scenarios(run, wd, scen, "c02")
    report_ws(run, trace, viol, "C02", scen, "scenario")
    for v in viol:      # "every call returns exactly once": also when all callers give up while the connection is being lost
        if v[1] == "C03" and v[2] == "call-never-returned" and 0 < v[0] <= len(scen) and scen[v[0] - 1]["sc"] in ("c03.cancelkill", "c02.stress"):
            run.violation("scenario %s: call-never-returned" % scen[v[0] - 1]["sc"], "call-never-returned",
                          {"property": "C02", "scenario": scen[v[0] - 1], "clause": v[2], "call": v[3]})
    binding_pass(run, wd, [s for s in scen if s["sc"] != "c02.stress" or s["args"]["n"] <= 16], "c02", limit=12 if not thorough else 120)
    run.cov["distinct_nontrivial"] = len(set(json.dumps(s, sort_keys=True) for s in scen))
    run.cov["rule"] = "scenarios as listed in assumptions; distinct = distinct scenario descriptions (kind, permutation / script, transport, perturbation set)"
    for s in scen[:2] + scen[-2:]:
        run.sample(s)
    run.sample([e for e in trace if not str(e.get("ev", "")).startswith("h:")][1:12])


# --------------------------------------------------------------------------------------------- C03 / C04 / C05
FAULT_POS = ["before", "cut-hdr", "cut-payload", "cut-last", "after"]


def fault_scenarios(rnd, thorough):
    scen = []
    for d in ("c2s", "s2c"):
        for fr in (1, 2, 3):
            for pos in FAULT_POS:
                for style in ("fin", "rst"):
                    for window in (False, True):
                        if not thorough and rnd.random() > 0.45:
                            continue
                        scen.append({"sc": "c03.fault", "args": {"dir": d, "frame": fr, "pos": pos, "style": style, "window": window,
                                                                 "errors": rnd.random() < 0.5, "sub": rnd.random() < 0.3}})
    for pos2 in (FAULT_POS if thorough else rnd.sample(FAULT_POS, 3)):       # double faults: second one right after the swap
        for pos in (["cut-payload", "after", "before"] if thorough else [rnd.choice(["cut-payload", "after"])]):
            scen.append({"sc": "c03.fault", "args": {"dir": "s2c", "frame": rnd.choice([1, 2, 3]), "pos": pos, "style": rnd.choice(["fin", "rst"]),
                                                     "window": rnd.random() < 0.5, "double": True, "pos2": pos2, "sub": True}})
    for pos in (FAULT_POS if thorough else ["cut-payload", "after"]):
        scen.append({"sc": "c03.fault", "args": {"dir": "s2c", "frame": 1, "pos": pos, "style": "fin", "noreconnect": True}})
    # a silent stall (black hole, noticed only through keepalive), with calls issued inside the reconnect window
    for traffic in (False, True):
        for window in ((False, True) if thorough else (True,)):
            scen.append({"sc": "c03.fault", "args": {"style": "stall", "window": window, "traffic": traffic, "errors": rnd.random() < 0.5, "sub": rnd.random() < 0.3}})
    # ... falling silent inside the payload of a server-to-client frame, or in one direction only (half-open link)
    for style in ("stallmid", "halfopen"):
        for window in ((False, True) if thorough else (True,)):
            scen.append({"sc": "c03.fault", "args": {"style": style, "frame": rnd.choice([1, 2, 3]), "window": window, "traffic": rnd.random() < 0.5,
                                                     "errors": rnd.random() < 0.5, "sub": False}})
    # the connection is lost several times in a row with calls in flight each time; many callers give up at the moment of a loss
    scen.append({"sc": "c03.repeat", "args": {"losses": 3, "errors": rnd.random() < 0.5}})
    scen.append({"sc": "c03.repeat", "args": {"losses": 2, "close": True}})
    if thorough:
        scen.append({"sc": "c03.repeat", "args": {"losses": 5}})
    for n, skew in ((60, 0), (200, 300)):
        scen.append({"sc": "c03.cancelkill", "args": {"n": n, "skewus": skew}})
    for nore in (True, False):      # calls handed over while the connection goroutine is stuck in a write, then a reset
        scen.append({"sc": "c03.queued", "args": {"n": 12, "noreconnect": nore}})
    scen.append({"sc": "trap.staledelete", "args": {}})     # TLC counterexample of WsRpc_c03_nostalefix.cfg, forced with gates
    for errors in (False, True):
        for hold in ([1, 20, 60] if thorough else [20]):
            scen.append({"sc": "c03.writefail", "args": {"errors": errors, "holdms": hold, "style": rnd.choice(["fin", "rst"])}})
    # schedule perturbation at the hook points of the failure paths
    pts = ["rd.err", "rd.readerr", "main.incoming", "main.readerr", "closeinflight.pre", "closeinflight", "closechans.pre", "redial.spawn",
           "redial.swap", "redial.reader", "inflight.add", "write.req.pre", "resp.lookup", "resp.deliver.pre", "main.failfast", "exec.pop"]
    for s in scen:
        if rnd.random() < 0.5:
            s["args"]["p"] = rnd.choice([0.2, 0.5])
            s["args"]["delay"] = rnd.sample(pts, 5)
    return scen


def outage_scenarios(rnd, thorough):
    scen = []
    for k in ([1, 2, 3, 5] if thorough else [1, 3]):
        for errors in (False, True):
            for second in (False, True):
                for style in (["fin", "rst"] if thorough else [rnd.choice(["fin", "rst"])]):
                    scen.append({"sc": "c05.outage", "args": {"faileddials": k, "errors": errors, "second": second, "style": style,
                                                              "minus": rnd.choice([1000, 2000, 4000]), "maxus": rnd.choice([6000, 10000, 30000])}})
    # a long outage: well over a hundred failed redials (scaled-down delays) - the schedule must stay within [min, max] for ever
    scen.append({"sc": "c05.outage", "args": {"faileddials": 130, "errors": False, "second": False, "style": "fin", "minus": 1, "maxus": 150}})
    # retry-tagged method without a context parameter; keepalive on, and the healed link must be as good as the first one
    for nc, keep in ((True, False), (False, True), (True, True)):
        scen.append({"sc": "c05.outage", "args": {"faileddials": rnd.choice([1, 2]), "errors": rnd.random() < 0.5, "second": False, "style": rnd.choice(["fin", "rst"]),
                                                  "minus": 2000, "maxus": 10000, "nc": nc, "keepalive": keep, "healedphase": keep}})
    # the server says goodbye properly (close frame, normal closure): still a lost connection the client recovers from
    scen.append({"sc": "c05.outage", "args": {"faileddials": 1, "errors": rnd.random() < 0.5, "second": False, "style": "close1000", "minus": 2000, "maxus": 10000}})
    scen.append({"sc": "c05.outage", "args": {"noreconnect": True, "errors": False}})
    scen.append({"sc": "c05.outage", "args": {"noreconnect": True, "errors": True}})
    return scen


def _c03_models(run, wd, thorough):
    run.model_check(wd, "WsRpc.tla", "WsRpc_c03q.cfg", timeout=1800)
    if thorough:
        run.model_check(wd, "WsRpc.tla", "WsRpc_c03t.cfg", timeout=3000)
    # non-vacuity: without the read-error repair the model loses a call
    r = run.tlc(wd, "WsRpc.tla", "WsRpc_c03_noreaderrfix.cfg", timeout=900, tag="model_runs")
    if r["violated"] != "NoLostCall":
        raise vp.ToolFailure("self-test: WsRpc without the readError repair should violate NoLostCall, got %s" % r["violated"])


@check("C03")
def c03(run, replay):
    run.assumptions += [
        "fault kinds FIN and RST at {before, inside header, mid-payload, before last byte, after} of request / response frames 1..3 in "
        "both directions, with and without a call issued inside the reconnect window (redial held by a gate in the connection factory), "
        "double faults (second fault on the first frame of the new connection), no-reconnect clients; silent stalls (blackhole) are C17's subject",
        "clock-free oracle: a call is lost iff it is outstanding after a later probe call round-tripped and no handler runs for it (3 s grace)",
        "model: WsRpc.tla with faults FIN / payload cut, one reconnect, calls started at any moment",
    ]
    thorough = run.tier == "thorough"
    wd = run.dir("work")
    rnd = random.Random(run.seed)
    _c03_models(run, wd, thorough)
    scen = fault_scenarios(rnd, thorough)
    trace, viol = run_ws_scenarios(run, wd, scen, "c03", hooks=False, timeout=3000)
    report_ws(run, trace, viol, "C03", scen, "fault")
    binding_pass(run, wd, scen, "c03", limit=10 if not thorough else 100)
    # C02's token clauses must hold under faults too: report them here as C03 (no foreign result whatever fault occurs)
    for v in viol:
        if v[1] == "C02" and v[2] in ("foreign-result", "returned-more-than-once"):
            run.violation("fault: %s" % v[2], v[2], {"property": "C03", "scenario": scen[v[0] - 1], "clause": v[2], "call": v[3]})
    run.cov["distinct_nontrivial"] = len(set(json.dumps(s, sort_keys=True) for s in scen))
    run.cov["rule"] = "fault scenarios: direction x frame x byte position x style x window call x double fault; distinct = distinct descriptions"
    for s in scen[:3]:
        run.sample(s)
    run.sample([e for e in trace if not str(e.get("ev", "")).startswith("h:")][1:14])


@check("C04")
def c04(run, replay):
    run.assumptions += [
        "executions are counted per unique call token inside the harness handlers, request frames per token at the proxy",
        "same fault scenarios as C03 (plain, notification, retry-tagged calls) plus fault-free runs over ws and http for the "
        "exactly-once clauses; retry-tagged calls are the contrast case (the model shows them re-executing)",
    ]
    thorough = run.tier == "thorough"
    wd = run.dir("work")
    rnd = random.Random(run.seed)
    run.model_check(wd, "WsRpc.tla", "WsRpc_c03q.cfg", timeout=1800)
    r = run.tlc(wd, "WsRpc.tla", "WsRpc_c04_contrast.cfg", timeout=900, tag="model_runs")
    if r["violated"] != "RetryMayRepeat":
        raise vp.ToolFailure("self-test: a retry-tagged call should be able to execute twice in the model, got %s" % r["violated"])
    scen = fault_scenarios(rnd, thorough)
    for tr in ("ws", "http"):
        for p in (perms(3) if thorough else perms(3)[:3]):
            scen.append({"sc": "c02.perm", "args": {"n": 3, "perm": p, "transport": tr}})
        scen.append({"sc": "c02.stress", "args": {"n": 24, "transport": tr}})
    for kind in ("unary", "retry", "notify"):
        for warm in ([1, 3] if thorough else [1]):
            scen.append({"sc": "c04.httpkill", "args": {"kind": kind, "warm": warm}})
    scen.append({"sc": "c02.stress", "args": {"n": 24, "transport": "ws", "allbigreq": True, "reqsize": 48000, "procs": 1}})
    scen.append({"sc": "c02.stress", "args": {"n": 24, "transport": "ws", "allbigreq": True, "reqsize": 48000}})
    # the HTTP transport (HttpCall.tla): a plain POST is never re-sent; a replayable request (seeded design defect) executes twice
    run.model_check(wd, "HttpCall.tla", "HttpCall.cfg", timeout=300)
    run.model_check(wd, "HttpCall.tla", "HttpCall_retry.cfg", timeout=300)
    r = run.tlc(wd, "HttpCall.tla", "HttpCall_replay.cfg", timeout=300, tag="model_runs")
    if r["violated"] != "AtMostOnce":
        raise vp.ToolFailure("self-test: HttpCall with a replayable request should violate AtMostOnce, got %s" % r["violated"])
    trace, viol = run_ws_scenarios(run, wd, scen, "c04", timeout=3000)
    report_ws(run, trace, viol, "C04", scen, "scenario")
    http_call_binding(run, wd, trace)
    run.cov["distinct_nontrivial"] = len(set(json.dumps(s, sort_keys=True) for s in scen))
    run.cov["rule"] = "C03 fault scenarios + fault-free ws/http runs; distinct = distinct descriptions"
    for s in scen[:2] + scen[-2:]:
        run.sample(s)


@check("C05")
def c05(run, replay):
    run.assumptions += [
        "outage shapes: kill style x number of failed dials (server unreachable at the proxy) x second fault right after reconnect x "
        "{reconnect, no-reconnect} x error mapping {on, off} x backoff settings (1-4 ms min, 6-30 ms max, scaled down from the defaults)",
        "backoff is checked structurally from the library's own computed delays (hook backoff.next): every redial is preceded by its own "
        "delay d with min <= d <= max and d >= min * 1.5^attempt up to the cap; wall-clock spacing is not asserted",
        "liveness clauses are judged at quiescence after the server is reachable again (probe call round-tripped)",
    ]
    thorough = run.tier == "thorough"
    wd = run.dir("work")
    rnd = random.Random(run.seed)
    run.model_check(wd, "WsRpc.tla", "WsRpc_c05.cfg", timeout=1800)
    r = run.tlc(wd, "WsRpc.tla", "WsRpc_c03_nostalefix.cfg", timeout=900, tag="model_runs")
    if r["violated"] != "NoLostCall":
        raise vp.ToolFailure("self-test: WsRpc without the stale-delete repair should lose a retried call, got %s" % r["violated"])
    fs = fault_scenarios(rnd, False)
    scen = outage_scenarios(rnd, thorough) + [s for s in fs if s["args"].get("window")][:10] + [s for s in fs if s["sc"] in ("c03.writefail", "trap.staledelete")]
    # a silent stall is an outage too: the client must notice it by itself (even while the application keeps calling) and heal
    scen.append({"sc": "c17.keepalive", "args": {"pingms": 10, "timeoutms": 100, "blackhole": "steady", "longx": 1.5, "idlex": 1}})
    trace, viol = run_ws_scenarios(run, wd, scen, "c05", hooks=True, timeout=3000)
    # confirm before raising an alarm on the millisecond-scale keepalive clauses (see C17): report only what shows up twice
    timing = [v for v in viol if v[1] == "C05" and (v[2].startswith("call-failed-on-healed-link") or v[2].startswith("healed-")) and 0 < v[0] <= len(scen)]
    if timing:
        idx = sorted({v[0] for v in timing})
        trace2, viol2 = run_ws_scenarios(run, wd, [scen[i - 1] for i in idx], "c05confirm", hooks=True, timeout=3000)
        confirmed = {(idx[v[0] - 1], v[2]) for v in viol2 if v[1] == "C05" and 0 < v[0] <= len(idx)}
        keep = set(id(v) for v in timing if (v[0], v[2]) in confirmed)
        viol = [v for v in viol if v not in timing or id(v) in keep]
    report_ws(run, trace, viol, "C05", scen, "outage")
    binding_pass(run, wd, [s for s in scen if s["args"].get("faileddials", 0) < 20], "c05", limit=8 if not thorough else 60)
    for v in viol:   # not re-establishing the link after a silent stall is a C05 failure as much as a C17 one
        if v[1] == "C17" and v[2] in ("no-redial-after-silent-peer", "pending-call-not-failed-after-silent-peer"):
            run.violation("outage: %s" % v[2], v[2], {"property": "C05", "scenario": scen[v[0] - 1], "clause": v[2], "call": v[3]})
    run.cov["distinct_nontrivial"] = len(set(json.dumps(s, sort_keys=True) for s in scen))
    run.cov["rule"] = "outage scenarios as listed in assumptions; distinct = distinct descriptions"
    for s in scen[:3]:
        run.sample(s)
    run.sample([e for e in trace if e.get("ev") in ("h:backoff.next", "DialStart", "DialEnd", "ServerUp", "ServerDown")][:14])


# --------------------------------------------------------------------------------------------- C06 / C07 / C08 / C18
CHAN_POINTS = ["chanh.add.pre", "chanh.add", "chanh.val", "chanh.close", "chanh.closeall", "closechans.pre", "sink.val.pre", "sink.close",
               "buf.push", "buf.pop", "buf.close", "fwd.reg", "fwd.reg.done", "fwd.val", "fwd.close", "chout.reg.pre", "resp.deliver.pre",
               "exec.pop", "cancel.recv", "cancel.enq.pre", "ctxasync.done", "handling.add", "handling.done", "call.spawn", "closeinflight.pre"]


def perturb(rnd, scen, points, frac=0.5):
    for s in scen:
        if max(s["args"].get("lens") or [0]) > 5000:
            continue        # tens of thousands of values, each passing several hook points: the delays would only stretch the run
        if rnd.random() < frac:
            s["args"]["p"] = rnd.choice([0.2, 0.5, 0.8])
            s["args"]["delay"] = rnd.sample(points, 6)
    return scen


@check("C06")
def c06(run, replay):
    run.assumptions += [
        "client A: unary 1, retry-tagged 2, subscription 3 (request id differs from its channel id); client B: unary 11, subscription 13 with the "
        "same wire ids; every non-empty subset of A's calls is cancelled at one of the instants {before send, handler running, racing the response, "
        "subscription established}; over HTTP cancellation = abort of the request",
        "a handler that should be cancelled waits for its context (2 s) and reports if the cancellation never arrives; every other handler reports "
        "a cancellation observed while it is still active",
    ]
    thorough = run.tier == "thorough"
    wd = run.dir("work")
    rnd = random.Random(run.seed)
    run.model_check(wd, "WsRpc.tla", "WsRpc_c06.cfg" if thorough else "WsRpc_c06q.cfg", timeout=2400)
    run.model_check(wd, "WsRpc.tla", "WsRpc_c06live.cfg", timeout=900)
    scen = []
    subsets = [[1], [2], [3], [1, 2], [1, 3], [2, 3], [1, 2, 3]]
    for inst in ("pre", "running", "race", "established"):
        for sub in subsets:
            if inst == "established" and 3 not in sub:
                continue
            if not thorough and rnd.random() > 0.6:
                continue
            scen.append({"sc": "c06.cancel", "args": {"cancel": sub, "instant": inst}})
    for inst in ("pre", "running", "race"):
        for sub in ([1], [2], [1, 2]):
            scen.append({"sc": "c06.cancel", "args": {"cancel": sub, "instant": inst, "transport": "http"}})
    scen.append({"sc": "c06.cancel", "args": {"cancel": [], "instant": "running"}})
    perturb(rnd, scen, CHAN_POINTS)
    # server side (SrvConn.tla): a cancel frame cancels exactly the call it names; a variant that cancels every handler must be caught
    run.model_check(wd, "SrvConnMC.tla", "SrvConn_liveS.cfg", timeout=900)
    r = run.tlc(wd, "SrvConnMC.tla", "SrvConn_cancelany.cfg", timeout=600, tag="model_runs")
    if r["violated"] not in ("CancelHasCause", "CancelExact"):
        raise vp.ToolFailure("self-test: SrvConn with a cancel-everything executor should violate CancelHasCause / CancelExact, got %s" % r["violated"])
    # a batch of calls in one HTTP request: nobody cancels, no handler context may be cancelled
    scen.append({"sc": "c06.batch", "args": {"n": 3}})
    # the caller of a subscription gives up while the connection goroutine is stuck in a write, then the response arrives (gates + back-pressure)
    scen.append({"sc": "trap.subcancel", "args": {}})
    # a method whose only result is the channel: its handler context lives as long as the stream
    scen.append({"sc": "c07.stream", "args": {"lens": [5, 5], "consumers": ["slow", "fast"], "shapes": ["only", "only"], "unary": 1}})
    trace, viol = run_ws_scenarios(run, wd, scen, "c06", timeout=3000)
    report_ws(run, trace, viol, "C06", scen, "cancel")
    binding_pass(run, wd, [x for x in scen if x["sc"] in ("trap.subcancel", "c07.stream")], "c06", limit=4)
    run.cov["distinct_nontrivial"] = len(set(json.dumps(s, sort_keys=True) for s in scen))
    run.cov["rule"] = "cancelled subset x instant x transport (+ seeded hook delays); distinct = distinct descriptions"
    for s in scen[:3]:
        run.sample(s)
    run.sample([e for e in trace if e.get("ev") in ("CallerCancel", "HandlerCtxDone", "CtxMissing", "CallEnd")][:12])


def stream_scenarios(rnd, thorough):
    scen = []
    for lens, cons in ([[0, 1, 33, 300], ["fast", "slow", "fast", "fast"]], [[1, 0], ["fast", "fast"]], [[300], ["slow"]], [[33, 33, 33], ["fast", "slow", "fast"]],
                       [[400, 50, 5], ["stalled", "fast", "slow"]], [[40, 300], ["fast", "stalled"]]):
        scen.append({"sc": "c07.stream", "args": {"lens": lens, "consumers": cons, "unary": 3}})
    # three or more concurrent streams closed by their handlers in every order (the forwarder's bookkeeping)
    import itertools
    toks = [3, 13, 23]
    orders = list(itertools.permutations(toks))
    for o in (orders if thorough else rnd.sample(orders, 3)):
        scen.append({"sc": "c07.stream", "args": {"lens": [4, 4, 4, 4], "consumers": ["fast"] * 4, "closeorder": list(o), "unary": 1}})
    scen.append({"sc": "c07.stream", "args": {"lens": [3, 3, 3, 3, 3], "consumers": ["fast"] * 5, "closeorder": rnd.sample([3, 13, 23, 33, 43], 5), "unary": 1}})
    # the same, with the streams that stay open going on sending between the closes
    for o in (orders if thorough else rnd.sample(orders, 2)):
        scen.append({"sc": "c07.stream", "args": {"lens": [8, 8, 8, 8], "consumers": ["fast"] * 4, "closeorder": list(o), "unary": 1, "staged": True}})
    scen.append({"sc": "c07.stream", "args": {"lens": [10, 10, 10, 10, 10], "consumers": ["fast"] * 5, "closeorder": rnd.sample([3, 13, 23, 33, 43], 5), "unary": 1, "staged": True}})
    # a method whose only result is the channel; a neighbouring stream with a value that cannot be encoded
    scen.append({"sc": "c07.stream", "args": {"lens": [5, 33, 5], "consumers": ["fast", "slow", "fast"], "shapes": ["only", "", "only"], "unary": 2}})
    scen.append({"sc": "c07.stream", "args": {"lens": [6, 6, 6], "consumers": ["fast", "fast", "slow"], "nan": True, "unary": 2}})
    # far beyond every internal buffer size, with a subscriber that never reads
    scen.append({"sc": "c07.stream", "args": {"lens": [70000, 20], "consumers": ["stalled", "fast"], "unary": 3, "quietwire": True, "waitms": 20000}})
    return scen


@check("C07")
def c07(run, replay):
    run.assumptions += [
        "stream lengths 0, 1, 33, 300 (beyond the 32-slot sink and the 256-slot executor queue) and 70000 unread values; consumers fast, slow "
        "and stalled; 3-5 concurrent streams closed by their handlers in every order; unary calls interleaved",
        "wire order (response announcing a channel before its first value) is judged by the frame-aware proxy",
        "handlers start sending immediately after returning the channel (no pacing), so 'however early' is exercised by every scenario",
    ]
    thorough = run.tier == "thorough"
    wd = run.dir("work")
    rnd = random.Random(run.seed)
    run.model_check(wd, "WsRpc.tla", "WsRpc_c07.cfg", timeout=2400)
    scen = perturb(rnd, stream_scenarios(rnd, thorough), CHAN_POINTS, 0.4)
    # server side (SrvConn.tla): the response announcing a channel is written before that channel's first value
    r = run.tlc(wd, "SrvConnMC.tla", "SrvConn_valbeforeresp.cfg", timeout=600, tag="model_runs")
    if r["violated"] != "StreamOrdered":
        raise vp.ToolFailure("self-test: SrvConn with a forwarder that forwards before responding should violate StreamOrdered, got %s" % r["violated"])
    if thorough:
        run.model_check(wd, "SrvConnMC.tla", "SrvConn_SS.cfg", timeout=2400)
    trace, viol = run_ws_scenarios(run, wd, scen, "c07", timeout=3000)
    report_ws(run, trace, viol, "C07", scen, "stream")
    for v in viol:      # mutual independence: nothing on a streaming connection (subscription or ordinary call) may stay blocked
        if v[1] == "C03" and v[2] == "call-never-returned" and 0 < v[0] <= len(scen):
            run.violation("stream %s: call-blocked-on-a-streaming-connection" % scen[v[0] - 1]["sc"], "call-blocked-on-a-streaming-connection",
                          {"property": "C07", "scenario": scen[v[0] - 1], "clause": v[2], "call": v[3]})
    binding_pass(run, wd, [s for s in scen if max(s["args"].get("lens") or [0]) <= 200], "c07", limit=6 if not thorough else 30)
    run.cov["distinct_nontrivial"] = len(set(json.dumps(s, sort_keys=True) for s in scen))
    run.cov["rule"] = "stream scenarios as listed in assumptions; distinct = distinct descriptions"
    for s in scen[:3]:
        run.sample(s)
    run.sample([e for e in trace if e.get("ev") in ("ChanSend", "ChanRecv", "ChanClosed", "HandlerChanClose")][:12])


def term_scenarios(rnd, thorough):
    scen = []
    for cause in ("hclose", "cancel", "fin", "rst", "close", "srvcancel"):
        for inst in ("preresp", "mid", "buffered", "raceclose"):
            for n in ([4, 40] if thorough else [rnd.choice([4, 40])]):
                scen.append({"sc": "c08.term", "args": {"cause": cause, "instant": inst, "n": n}})
        # the cause strikes while values are in full flight through the executor and the sink (delays inside the delivery path)
        for rep in range(3 if thorough else 1):
            scen.append({"sc": "c08.term", "args": {"cause": cause, "instant": "streaming", "n": 400, "p": 0.7,
                                                    "delay": ["sink.val.pre", "chanh.val", "chanh.closeall", "closechans.pre"]}})
    return scen


@check("C08")
def c08(run, replay):
    run.assumptions += [
        "termination causes {handler close, context cancel, FIN, RST (incl. just before a reconnect), client close, server-side connection cancel} x "
        "instants {before the channel-id response, between values, values still buffered, racing the close notification}; plus the C07 multi-stream "
        "scenarios for the prefix / duplicate clauses and the TLC close-race witness forced with gates",
        "'eventually closed' is judged when the scenario is over (cause happened, consumer drained, 3 s grace)",
    ]
    thorough = run.tier == "thorough"
    wd = run.dir("work")
    rnd = random.Random(run.seed)
    run.model_check(wd, "WsRpc.tla", "WsRpc_c08.cfg", timeout=2400)
    run.model_check(wd, "WsRpc.tla", "WsRpc_c08live.cfg", timeout=900)
    r = run.tlc(wd, "WsRpc.tla", "WsRpc_c18race.cfg", timeout=600, tag="model_runs")
    if r["violated"] != "ClosedAfterExit":
        raise vp.ToolFailure("self-test: WsRpc without the exit-order repair should leave a channel open, got %s" % r["violated"])
    scen = term_scenarios(rnd, thorough)
    perturb(rnd, [s for s in scen if "p" not in s["args"]], CHAN_POINTS, 0.6)
    scen += [s for s in stream_scenarios(rnd, False) if "closeorder" in s["args"]]
    scen.append({"sc": "trap.closerace", "args": {}})
    scen.append({"sc": "trap.chanclose", "args": {}})       # the executor closing a sink while the main loop sweeps the channel handlers
    scen.append({"sc": "trap.chanval", "args": {}})         # ... and handing a value to a sink at that moment
    for gap in (1, 10):         # a subscription of the previous connection is cancelled while its channel id is in use again
        scen.append({"sc": "c08.reuse", "args": {"gapms": gap}})
    trace, viol = run_ws_scenarios(run, wd, scen, "c08", timeout=3000)
    report_ws(run, trace, viol, "C08", scen, "termination")
    binding_pass(run, wd, [s for s in scen if s["args"].get("instant") != "streaming"], "c08", limit=10 if not thorough else 80)
    run.cov["distinct_nontrivial"] = len(set(json.dumps(s, sort_keys=True) for s in scen))
    run.cov["rule"] = "cause x instant x length (+ seeded hook delays) + multi-stream close orders + close-race trap; distinct = distinct descriptions"
    for s in scen[:3]:
        run.sample(s)
    run.sample([e for e in trace if e.get("ev") in ("ChanRecv", "ChanClosed", "WireFault", "CloserStart", "CloserEnd", "CallerCancel")][:12])


@check("C18")
def c18(run, replay):
    run.assumptions += [
        "the closer is fired when the i-th hook point of a mixed workload (gated and free unary calls, a 300 kB result, a retry-tagged call, a "
        "notification, a paced stream) is passed, for a seeded sample of i in 1..260 (all i in thorough), also while the client redials an "
        "unreachable server; plus a peer answering a channel call with a non-channel result, the TLC close-race witness, and HTTP / custom closers",
        "after the closer returned: outstanding calls get 3 s, a later call 2 s, late redials 25-60 ms to show up",
    ]
    thorough = run.tier == "thorough"
    wd = run.dir("work")
    rnd = random.Random(run.seed)
    run.model_check(wd, "WsRpc.tla", "WsRpc_c18.cfg", timeout=2400)
    r = run.tlc(wd, "WsRpc.tla", "WsRpc_c18race.cfg", timeout=600, tag="model_runs")
    if r["violated"] != "ClosedAfterExit":
        raise vp.ToolFailure("self-test: WsRpc without the exit-order repair should leave a channel open, got %s" % r["violated"])
    scen = []
    instants = list(range(1, 261)) if thorough else sorted(rnd.sample(range(1, 261), 36))
    for i in instants:
        scen.append({"sc": "c18.close", "args": {"at": i}})
    for i in (range(5, 200, 6) if thorough else rnd.sample(range(5, 200), 10)):
        scen.append({"sc": "c18.close", "args": {"at": i, "outage": True, "runms": rnd.choice([6, 12, 25]), "afterms": 60}})
    perturb(rnd, scen, CHAN_POINTS + HOOK_POINTS_REQ, 0.3)
    scen.append({"sc": "c18.badchan", "args": {}})
    scen.append({"sc": "c18.backlog", "args": {"n": 40000}})      # closed with tens of thousands of values unread
    scen.append({"sc": "c18.closeblocked", "args": {"holdms": 1500, "reverse": True}})      # closed while a handler goroutine holds the writer
    scen.append({"sc": "trap.closerace", "args": {}})
    scen.append({"sc": "c18.otherclosers", "args": {}})
    trace, viol = run_ws_scenarios(run, wd, scen, "c18", timeout=3000)
    report_ws(run, trace, viol, "C18", scen, "close")
    binding_pass(run, wd, scen, "c18", limit=10 if not thorough else 120)
    run.cov["distinct_nontrivial"] = len(set(json.dumps(s, sort_keys=True) for s in scen))
    run.cov["rule"] = "close instant i (hook-point index) x {healthy, redialling} (+ seeded hook delays) + special scenarios; distinct = distinct descriptions"
    for s in scen[:2] + scen[-3:]:
        run.sample(s)
    run.sample([e for e in trace if e.get("ev") in ("CloserStart", "CloserEnd", "CallEnd", "ChanClosed", "DialStart", "Quiesce")][:14])


# --------------------------------------------------------------------------------------------- C13
PANIC_PAYLOADS = ["string", "error", "nilmap", "nilptr", "custom", "int", "nil", "badError", "badStringer", "index", "aborthandler"]


@check("C13")
def c13(run, replay):
    run.assumptions += [
        "panic payloads: string, error, nil-map write, nil dereference, custom struct, int, panic(nil), a value whose Error() panics, a value whose "
        "String() panics, index out of range; call kinds unary / notification / channel-returning / reverse-calling; over ws and http; alone, twice "
        "concurrently, and among siblings (gated unary, 100 kB result, paced stream on the same connection; unary on another ws connection and over http)",
        "the server and all clients live in one child process: a crash of the code under test is observed as the death of that process",
        "sibling behaviour is judged with the C02 / C03 / C07 clauses of Obs.tla on the same trace (reported here as C13)",
    ]
    thorough = run.tier == "thorough"
    wd = run.dir("work")
    rnd = random.Random(run.seed)
    run.model_check(wd, "Panic.tla", "Panic.cfg", timeout=600)
    r = run.tlc(wd, "Panic.tla", "Panic_norecover.cfg", timeout=600, tag="model_runs")
    if r["violated"] != "Confined":
        raise vp.ToolFailure("self-test: Panic.tla without recover should violate Confined, got %s" % r["violated"])
    scen = []
    for kind in ("unary", "notify", "sub", "reverse"):
        for payload in PANIC_PAYLOADS:
            for tr in ("ws", "http"):
                if tr == "http" and kind in ("sub", "reverse"):
                    continue
                if not thorough and rnd.random() > 0.5:
                    continue
                scen.append({"sc": "c13.panic", "args": {"kind": kind, "payload": payload, "transport": tr, "siblings": rnd.random() < 0.7,
                                                         "twice": rnd.random() < 0.4, "procs": 1 if rnd.random() < 0.4 else 0}})
    # two error replies rendered at the same time while a big response occupies the writer (single P: per-P caches are shared)
    for payload in ("string", "error", "nilptr"):
        scen.append({"sc": "c13.panic", "args": {"kind": "unary", "payload": payload, "transport": "ws", "siblings": True, "twice": True, "procs": 1,
                                                 "p": 0.8, "delay": ["h.resp.pre", "lazy.acquire.pre", "h.ret", "wl.enter"]}})
    # with the server's tracer option switched on (the tracer is told about panicking calls too)
    for kind in ("unary", "notify", "sub"):
        scen.append({"sc": "c13.panic", "args": {"kind": kind, "payload": rnd.choice(["string", "nilptr", "error"]), "transport": "ws", "siblings": True,
                                                 "twice": rnd.random() < 0.5, "procs": 0, "tracer": True}})
    scen.append({"sc": "c13.panic", "args": {"kind": "unary", "payload": "string", "transport": "http", "siblings": True, "twice": False, "procs": 0, "tracer": True}})
    # net/http's own abort sentinel as payload, on every call kind; a handler that panics after its caller has cancelled
    for kind in ("unary", "notify", "sub"):
        for tr in ("ws", "http"):
            if not (tr == "http" and kind == "sub"):
                scen.append({"sc": "c13.panic", "args": {"kind": kind, "payload": "aborthandler", "transport": tr, "siblings": True, "twice": False, "procs": 0}})
    for payload in ("string", "nilptr"):
        scen.append({"sc": "c13.panic", "args": {"kind": "unary", "payload": payload, "transport": "ws", "siblings": rnd.random() < 0.5, "twice": False,
                                                 "procs": 0, "cancelafter": True}})
    for payload in ("string", "nilmap"):
        for procs in (1, 0):
            scen.append({"sc": "c13.panic", "args": {"kind": "unary", "payload": payload, "transport": "ws", "siblings": True, "twice": True,
                                                     "procs": procs, "blockwriter": True}})
    # what the siblings of a panicking call go through is judged at quiescence after bounded waits (a 6 MB response held back by
    # the proxy, paced streams): on a starved machine those waits can run out, so sibling observations are confirmed by re-runs
    trace, viol = run_ws_scenarios(run, wd, scen, "c13", timeout=3000,
                                   also_confirm=lambda v: v[1] in ("C02", "C03", "C07", "C08") and v[2] != "process-crashed")
    report_ws(run, trace, viol, "C13", scen, "panic")
    for v in viol:   # siblings must behave as if the panic had not happened
        if v[1] in ("C02", "C03", "C07", "C08") and v[2] != "process-crashed":
            run.violation("panic sibling: %s %s" % (v[1], v[2]), v[2], {"property": "C13", "scenario": scen[v[0] - 1], "clause": v[2], "call": v[3]})
    run.cov["distinct_nontrivial"] = len(set(json.dumps(s, sort_keys=True) for s in scen))
    run.cov["rule"] = "call kind x payload x transport x {alone, siblings} x {once, twice}; distinct = distinct descriptions"
    for s in scen[:3]:
        run.sample(s)
    run.sample([e for e in trace if e.get("ev") in ("CallEnd", "ProcessExit")][:10])


# --------------------------------------------------------------------------------------------- C14
@check("C14")
def c14(run, replay):
    run.assumptions += [
        "writers exercised together on one connection: caller requests (small and multi-buffer), cancel notifications (waiting caller and subscription "
        "watcher), handler responses through the lazily acquired writer (up to 60 kB), channel registration replies, channel values and closes, reverse "
        "calls, pings every 0.3-0.8 ms on both sides, close handshake, connection swap on forced reconnects; 1 and n Ps; seeded delays inside the write sections",
        "torn / interleaved messages are judged by the frame-aware proxy (every frame parsed, fragment sequences checked), concurrent-write panics of the "
        "websocket library by the death of the child process, lock discipline by the hook events at every write section (TryLock-based 'lock held' bit)",
        "unsynchronised accesses that never produce a torn frame, an overlapping write section or a crash are not decided here (no Go data-race statement)",
    ]
    thorough = run.tier == "thorough"
    wd = run.dir("work")
    rnd = random.Random(run.seed)
    run.model_check(wd, "WriterLock.tla", "WriterLock.cfg" if thorough else "WriterLock_q.cfg", timeout=2400)
    r = run.tlc(wd, "WriterLock.tla", "WriterLock_nolock.cfg", timeout=600, tag="model_runs")
    if r["violated"] not in ("MutualExclusion", "Contiguous"):
        raise vp.ToolFailure("self-test: WriterLock with a lock-free writer should be violated, got %s" % r["violated"])
    scen = []
    for i in range(30 if thorough else 10):
        args = {"rounds": rnd.choice([2, 3, 4]), "n": rnd.choice([8, 12, 20]), "reconnect": i % 2 == 0, "pingus": rnd.choice([300, 500, 800]),
                "procs": rnd.choice([0, 0, 1, 2])}
        if i % 3 != 2:
            args["p"] = rnd.choice([0.3, 0.6, 0.9])
            args["delay"] = ["wl.enter"] + rnd.sample(["fwd.val", "fwd.close", "fwd.reg", "h.resp.pre", "lazy.acquire.pre", "write.req.pre", "ctxasync.done",
                                                        "cancel.enq.pre", "redial.swap"], 3)
        scen.append({"sc": "c14.writers", "args": args})
    scen.append({"sc": "c18.closeblocked", "args": {"holdms": 1500, "reverse": True}})      # the close frame while a handler goroutine holds the writer
    for i in range(6 if thorough else 3):    # many cancel frames written at the same instant, next to large requests
        scen.append({"sc": "c14.writers", "args": {"rounds": 1, "n": 4, "reconnect": False, "pingus": 800, "procs": 0, "burst": rnd.choice([12, 24])}})
    trace, viol = run_ws_scenarios(run, wd, scen, "c14", hooks=True, timeout=3000)
    report_ws(run, trace, viol, "C14", scen, "writers")
    run.cov["wire_frames_parsed"] = sum(1 for e in trace if e.get("ev") == "WireFrame")
    run.cov["write_sections_observed"] = sum(1 for e in trace if e.get("ev") == "h:wl.enter")
    run.cov["distinct_nontrivial"] = len(set(json.dumps(s, sort_keys=True) for s in scen))
    run.cov["rule"] = "mixed-writer stress scenarios (rounds x writers per round x reconnects x ping interval x Ps x delay set); distinct = distinct descriptions"
    for s in scen[:3]:
        run.sample(s)
    run.sample([e for e in trace if e.get("ev") in ("h:wl.enter", "WireFrame")][:10])


# --------------------------------------------------------------------------------------------- C15
@check("C15")
def c15(run, replay):
    run.assumptions += [
        "end causes {graceful close frame, FIN, RST, server-side context cancel} x handler mixes drawn from {unary with id, notification, streaming, "
        "1-4 MB response, reverse-calling} x reaction time after cancellation {0, 20 ms} x {peer reading, peer stalled (TCP back-pressure)} x "
        "{a frame in flight to the main loop or not}",
        "goroutines are counted from the goroutine profile by the pprof label (jrpc-mode=wsserver) the library attaches to a server connection and that "
        "every goroutine it spawns inherits; counted after all harness handlers have returned, polled for up to 3 s",
        "every handler waits for its context to be cancelled and reports if that never happens (2 s)",
    ]
    thorough = run.tier == "thorough"
    wd = run.dir("work")
    rnd = random.Random(run.seed)
    run.model_check(wd, "ServerConn.tla", "ServerConn.cfg", timeout=900)
    for cfg in ("ServerConn_nolazy.cfg", "ServerConn_noreader.cfg"):
        r = run.tlc(wd, "ServerConn.tla", cfg, timeout=600, tag="model_runs")
        if r["violated"] != "NothingRetained":
            raise vp.ToolFailure("self-test: %s should violate NothingRetained, got %s" % (cfg, r["violated"]))
    # the whole life of a server-side connection (SrvConn.tla): safety for every 2-handler mix, teardown liveness under fairness
    for cfg in (("SrvConn_US.cfg", "SrvConn_SN.cfg", "SrvConn_PU.cfg", "SrvConn_UPn.cfg", "SrvConn_SS.cfg") if thorough else ("SrvConn_PU.cfg",)):
        run.model_check(wd, "SrvConnMC.tla", cfg, timeout=2400)
    run.model_check(wd, "SrvConnMC.tla", "SrvConn_live.cfg" if thorough else "SrvConn_liveS.cfg", timeout=2400)
    r = run.tlc(wd, "SrvConnMC.tla", "SrvConn_noexitcancel.cfg", timeout=600, tag="model_runs")
    if r["violated"] != "ReturnedClean":
        raise vp.ToolFailure("self-test: SrvConn whose exit path forgets the handlers should violate ReturnedClean, got %s" % r["violated"])
    kinds = ["unary", "notify", "stream", "big", "reverse"]
    scen = []
    for cause in ("graceful", "fin", "rst", "srvcancel"):
        mixes = [kinds, ["unary"], ["notify"], ["stream"], ["big"], ["reverse"], ["unary", "big"], ["stream", "stream", "unary"]]
        for mix in (mixes if thorough else [kinds] + rnd.sample(mixes[1:], 3)):
            scen.append({"sc": "c15.end", "args": {"cause": cause, "mix": mix, "reactms": rnd.choice([0, 20]), "reverse": True,
                                                   "inflight": rnd.random() < 0.5, "noping": rnd.random() < 0.5}})
        scen.append({"sc": "c15.end", "args": {"cause": cause, "mix": ["unary", "big"], "reactms": 0, "bigsize": 4000000, "stalled": True, "reverse": True,
                                               "inflight": True}})
    for cause in ("srvcancel", "graceful", "fin"):
        # TLC witnesses of ServerConn_noreader.cfg / the blocked-writer shape, forced with a gate / TCP back-pressure
        if cause == "srvcancel":     # (with the reader parked the server can only learn of the end through its own context)
            scen.append({"sc": "c15.end", "args": {"cause": cause, "mix": ["unary"], "gatereader": True, "reverse": True}})
            scen.append({"sc": "c15.end", "args": {"cause": cause, "mix": ["stream", "notify"], "gatereader": True, "reverse": True}})
        scen.append({"sc": "c15.end", "args": {"cause": cause, "mix": ["unary"], "bigblocked": True, "reverse": True}})
        # ... the peer sent an empty message earlier on
        scen.append({"sc": "c15.end", "args": {"cause": cause, "mix": ["unary", "stream"], "emptyframe": True, "noping": True, "reverse": True}})
        # ... the peer only half-closes (FIN) while the writer is blocked; the end comes while the reader is inside a frame body
        scen.append({"sc": "c15.end", "args": {"cause": "halffin", "mix": ["unary", "notify"], "bigblocked": True, "reverse": True}})
        scen.append({"sc": "c15.end", "args": {"cause": cause, "mix": ["unary"], "partial": True, "noping": True, "reverse": True}})
        # ... and streaming handlers hand over their channels while the forwarder cannot make progress
        scen.append({"sc": "c15.end", "args": {"cause": cause, "mix": ["stream"], "bigblocked": True, "latesubs": 5, "reverse": True}})
    perturb(rnd, [s for s in scen if not s["args"].get("gatereader")], ["rd.msg.pre", "rd.next.pre", "main.incoming", "main.ctxdone", "closeinflight.pre", "closechans.pre", "exec.pop", "lazy.acquire.pre",
                        "h.resp.pre", "fwd.exit", "fwd.val", "handling.add", "call.spawn", "ws.done"], 0.5)
    trace, viol = run_ws_scenarios(run, wd, scen, "c15", timeout=3000)
    report_ws(run, trace, viol, "C15", scen, "connection-end")
    binding_pass(run, wd, scen, "c15", limit=10 if not thorough else 60, client=False)
    run.cov["distinct_nontrivial"] = len(set(json.dumps(s, sort_keys=True) for s in scen))
    run.cov["rule"] = "cause x handler mix x reaction time x stalled peer x in-flight frame (+ seeded hook delays); distinct = distinct descriptions"
    for s in scen[:3]:
        run.sample(s)
    run.sample([e for e in trace if e.get("ev") in ("ConnEnded", "HandlerCtxDone", "ConnGoroutines", "CtxMissing")][:12])


# --------------------------------------------------------------------------------------------- C16
@check("C16")
def c16(run, replay):
    run.assumptions += [
        "2-4 simultaneously connected clients, 2-6 concurrent forward calls each, every handler calling back (direct name, client-side alias, method "
        "tag) while the forward call is pending; the first client's connection lost {before the reverse call is made, inside the reverse request frame, "
        "inside the reverse response frame} at {header, payload, last byte}; server without the reverse option; HTTP clients",
        "a reverse handler logs which client it runs on; a forward call returns the name its reverse call obtained",
    ]
    thorough = run.tier == "thorough"
    wd = run.dir("work")
    rnd = random.Random(run.seed)
    run.model_check(wd, "Reverse.tla", "Reverse.cfg", timeout=900)
    r = run.tlc(wd, "Reverse.tla", "Reverse_shared.cfg", timeout=600, tag="model_runs")
    if r["violated"] != "OwnClient":
        raise vp.ToolFailure("self-test: Reverse.tla with a shared reverse client should misroute, got %s" % r["violated"])
    scen = []
    for k in (2, 3, 4):
        for calls in ([2, 6] if thorough else [rnd.choice([2, 6])]):
            scen.append({"sc": "c16.reverse", "args": {"clients": k, "calls": calls, "reverse": True}})
    for lose in ("before", "request", "response"):
        for pos in (["cut-hdr", "cut-payload", "cut-last", "before", "after"] if thorough else rnd.sample(["cut-hdr", "cut-payload", "cut-last", "before", "after"], 2)):
            scen.append({"sc": "c16.reverse", "args": {"clients": 2, "calls": 2, "reverse": True, "lose": lose, "pos": pos}})
    for rep in range(4):     # what happens to the queued reverse calls depends on a race inside the dying connection: several runs
        scen.append({"sc": "c16.reverse", "args": {"clients": 2, "calls": 2, "reverse": True, "lose": "queued", "rep": rep}})
    scen.append({"sc": "c16.reverse", "args": {"clients": 3, "calls": 2, "reverse": True, "notifycb": True}})
    scen.append({"sc": "c16.reverse", "args": {"clients": 4, "calls": 4, "reverse": True, "alias2": True}})     # clients with different alias tables
    scen.append({"sc": "c16.reverse", "args": {"clients": 2, "calls": 2, "reverse": False}})
    scen.append({"sc": "c16.reverse", "args": {"clients": 2, "calls": 2, "reverse": True, "transport": "http"}})
    perturb(rnd, scen, HOOK_POINTS_REQ + ["closeinflight.pre", "rd.err", "main.incoming"], 0.4)
    trace, viol = run_ws_scenarios(run, wd, scen, "c16", timeout=3000)
    report_ws(run, trace, viol, "C16", scen, "reverse")
    for v in viol:   # same correlation / error guarantees as forward calls
        if v[1] in ("C02", "C03") and v[2] not in ("process-crashed",):
            run.violation("reverse: %s %s" % (v[1], v[2]), v[2], {"property": "C16", "scenario": scen[v[0] - 1], "clause": v[2], "call": v[3]})
    run.cov["distinct_nontrivial"] = len(set(json.dumps(s, sort_keys=True) for s in scen))
    run.cov["rule"] = "clients x calls x loss point x byte position x option/transport (+ seeded hook delays); distinct = distinct descriptions"
    for s in scen[:3]:
        run.sample(s)
    run.sample([e for e in trace if e.get("ev") in ("RevStart", "RevCallEnd", "CallEnd")][:12])


# --------------------------------------------------------------------------------------------- C17
@check("C17")
def c17(run, replay):
    run.assumptions += [
        "discrete-time model: all (client ping, client timeout, server ping) triples in 1..3 x 2..7(8) x 0..6(9) ticks, one-way delay <= 1 tick, "
        "application calls at arbitrary ticks, black hole from any tick; the documented constraint is 2*ping < timeout (plus the link delay)",
        "real executions use millisecond-scale settings with a safety margin (timeout / ping >= 6; the boundary ratio is explored only in the model "
        "because scheduler jitter would make it flaky on real time) against servers pinging at 0, 1 s, 5 s (default) and 20 ms",
        "time bounds on the real code are generous multiples: pending calls must fail and a redial must start within 6 x timeout + 300 ms",
    ]
    thorough = run.tier == "thorough"
    wd = run.dir("work")
    rnd = random.Random(run.seed)
    run.model_check(wd, "Keepalive.tla", "Keepalive.cfg" if thorough else "Keepalive_q.cfg", timeout=3000)
    for cfg, inv in (("Keepalive_nopong.cfg", "NeverDroppedWhenHealthy"), ("Keepalive_sendrenews.cfg", "DetectedInBoundedTime")):
        r = run.tlc(wd, "Keepalive.tla", cfg, timeout=900, tag="model_runs")
        if r["violated"] != inv:
            raise vp.ToolFailure("self-test: %s should violate %s, got %s" % (cfg, inv, r["violated"]))
    settings = [(15, 120), (10, 100), (25, 200), (12, 90)]
    scen = []
    for (p, t) in (settings if thorough else rnd.sample(settings, 2)):
        for srvping in ([-1, 0, 1000, 20] if thorough else rnd.sample([-1, 0, 1000, 20], 2)):
            for bh in ("idle", "steady", ""):
                scen.append({"sc": "c17.keepalive", "args": {"pingms": p, "timeoutms": t, "srvpingms": srvping, "blackhole": bh, "afterheal": bh != "",
                                                             "longx": rnd.choice([1.5, 3, 4]), "idlex": rnd.choice([2, 3])}})
    # a large response written to a peer that stops reading for longer than the ping handler is willing to wait for the writer
    for srvping in ((-1, 20) if thorough else (-1,)):
        scen.append({"sc": "c17.keepalive", "args": {"pingms": 50, "timeoutms": 4000, "srvpingms": srvping, "blackhole": "", "stallwritems": 1600,
                                                     "longx": 0.05, "idlex": 0.05}})
    trace, viol = run_ws_scenarios(run, wd, scen, "c17", timeout=3000)
    # confirm before raising an alarm: these scenarios run on millisecond-scale timeouts, and one scheduling hiccup of the machine
    # (tens of milliseconds without the client's loop running) legitimately looks like a silent peer. A violation is reported
    # only if the same clause shows up again when the scenario is run a second time.
    mine = [v for v in viol if v[1] == "C17" and 0 < v[0] <= len(scen)]
    if mine:
        idx = sorted({v[0] for v in mine})
        again = [scen[i - 1] for i in idx]
        trace2, viol2 = run_ws_scenarios(run, wd, again, "c17confirm", timeout=3000)
        confirmed = {(idx[v[0] - 1], v[2]) for v in viol2 if v[1] == "C17" and 0 < v[0] <= len(idx)}
        dropped = [v for v in mine if (v[0], v[2]) not in confirmed]
        if dropped:
            run.cov.setdefault("unconfirmed_timing_observations", []).extend([{"scenario": scen[v[0] - 1], "clause": v[2]} for v in dropped][:5])
        viol = [v for v in viol if v[1] != "C17" or (v[0], v[2]) in confirmed]
    report_ws(run, trace, viol, "C17", scen, "keepalive")
    run.cov["distinct_nontrivial"] = len(set(json.dumps(s, sort_keys=True) for s in scen))
    run.cov["rule"] = "(ping, timeout) x server ping x black-hole point x healthy-again phase; distinct = distinct descriptions"
    for s in scen[:3]:
        run.sample(s)
    run.sample([e for e in trace if e.get("ev") in ("BlackholeOutcome", "DialStart", "PhaseEnd", "PhaseStart")][:12])


# --------------------------------------------------------------------------------------------- hook-level binding (WsRpcTrace)
def binding_pass(run, wd, scen, tag, selftest=True, limit=None, client=True):
    """Runs single-client scenarios with every hook recorded and lets TLC check, scenario by scenario, that the merged hook + API
    trace is a behaviour of WsRpc (WsRpcTrace.tla). A rejected trace is DRIFT (the code no longer follows the specification at
    hook granularity), not a verdict; the self-test shows that a corrupted trace and a trace with one hook removed are rejected."""
    import shutil
    import concurrent.futures
    scen = [s for s in scen if s["sc"] not in ("c06.cancel", "c16.reverse", "c13.panic", "c14.writers", "c17.keepalive", "c04.httpkill", "c18.otherclosers")
            and (s["sc"] != "c15.end" or not client)
            and s["args"].get("transport", "ws") == "ws" and (not s["args"].get("reverse") or s["sc"] == "c15.end") and not s["args"].get("quietwire")
            and "reverse" not in (s["args"].get("mix") or []) and not s["args"].get("gatereader")
            # not modelled at hook level: keepalive traffic of the silent-stall styles, the float stream next to the streams under test
            and s["args"].get("style") not in ("stall", "stallmid", "halfopen") and not s["args"].get("nan") and not s["args"].get("keepalive")]
    if limit:
        scen = scen[:limit]
    if not scen:
        return
    selftest = selftest and not run.violations      # the self-test demonstrates the binding on a tree the verdict pass found nothing on
    sf = os.path.join(wd, "bscen_%s.ndjson" % tag)
    with open(sf, "w") as f:
        for s in scen:
            f.write(json.dumps(s) + "\n")
    tf = os.path.join(wd, "btrace_%s.ndjson" % tag)
    run.harness("wsp", wd, infile=os.path.basename(sf), outfile=os.path.basename(tf), timeout=1800, args={"hooks": "1"})
    # split per scenario
    # hook events of a connection that did not start in this scenario (a goroutine that outlived an earlier one: the
    # library's context watchers live until their context ends) are not part of it
    per, cur, own, stale = [], None, set(), set()
    for e in vp.read_ndjson(tf):
        if e.get("ev") == "reset":
            cur, own, stale = [e], set(), set()
            per.append(cur)
        elif cur is not None and e.get("ev") != "scenario-done":
            c = e.get("conn", 0) if str(e.get("ev", "")).startswith("h:") else 0
            if isinstance(c, int) and c > 0 and c not in own:
                if c in stale or e["ev"] not in ("h:ws.accept", "h:main.start"):
                    stale.add(c)
                    continue
                own.add(c)
            cur.append(e)

    def validate(i, events, name):
        d = os.path.join(wd, "bind_%s_%s" % (tag, name))
        os.makedirs(d, exist_ok=True)
        for f in ("WsRpc.tla", "WsRpcTrace.tla"):
            shutil.copy(os.path.join(vp.SPEC, f), d)
        with open(os.path.join(d, "WsRpcTrace.cfg"), "w") as f:
            f.write(wsrpc_trace_cfg(events))
        with open(os.path.join(d, "trace.ndjson"), "w") as f:
            for e in events:
                f.write(json.dumps(e) + "\n")
        r = run.tlc(d, "WsRpcTrace.tla", "WsRpcTrace.cfg", workers=1, timeout=600)
        import re as _re
        m = _re.search(r'"HIGHWATER", (\d+)', r["out"])
        hw = int(m.group(1)) if m else 0
        return {"i": i, "n": len(events), "hw": hw, "accepted": hw == len(events) + 1 and r["violated"] is None and not r["timeout"],
                "violated": r["violated"], "states": r["distinct"], "timeout": r["timeout"], "rc": r["rc"]}

    with concurrent.futures.ThreadPoolExecutor(max_workers=8) as ex:
        fut = ex.submit(srv_binding, run, wd, per, scen, tag, selftest)
        results = list(ex.map(lambda t: validate(t[0], t[1], "s%d" % t[0]), enumerate(per))) if client else []
        fut.result()
    acc = [r for r in results if r["accepted"]]
    rej = [r for r in results if not r["accepted"]]
    run.cov.setdefault("binding", {})
    run.cov["binding"][tag] = {"scenarios": len(results), "accepted": len(acc), "rejected": len(rej), "hook_events": sum(r["n"] for r in results),
                               "states": sum(r["states"] for r in results)}
    run.cov["traces_validated_against_impl"] += len(acc)
    for r in rej:
        if r["timeout"] or r["rc"] not in (0, 12, 13):
            log("binding validation of scenario %d did not complete (rc=%s)" % (r["i"], r["rc"]))
        ev = per[r["i"]]
        at = ev[min(r["hw"], len(ev)) - 1] if r["hw"] >= 1 else {}
        if r["violated"] == "TraceInvs":
            run.violation("binding %s: design invariant of WsRpc violated on a real execution" % ev[0].get("name"), "TraceInvs",
                          {"property": run.prop, "scenario": scen[r["i"]], "events": ev[:400]})
            continue
        run.cov["drift"] += 1
        run.cov.setdefault("drift_samples", []).append({"scenario": scen[r["i"]], "stuck_at_line": r["hw"], "event": at})
        print("DRIFT property=%s binding: scenario %s is not a behaviour of WsRpc.tla at trace line %d (%s); verdicts come from the Obs predicates"
              % (run.prop, scen[r["i"]].get("sc"), r["hw"], at.get("ev")))
    if selftest and acc:
        # demonstrate the binding: (1) one field corrupted, (2) one hook's events removed -> both must be rejected
        base = per[acc[0]["i"]]
        idx = [k for k, e in enumerate(base) if e.get("ev") == "h:inflight.add" and "tok" in e]
        toks = sorted({e["tok"] for e in base if e.get("ev") == "h:inflight.add" and "tok" in e})
        ok = True
        if idx and len(toks) >= 2:
            bad = [dict(e) for e in base]
            bad[idx[0]]["tok"] = [t for t in toks if t != bad[idx[0]]["tok"]][0]
            ok = ok and not validate(9001, bad, "self1")["accepted"]
        bad2 = [e for e in base if e.get("ev") != "h:resp.deliver.pre"]
        if len(bad2) != len(base):
            ok = ok and not validate(9002, bad2, "self2")["accepted"]
        run.cov["binding"][tag]["selftest_rejects_corrupted_traces"] = ok
        if not ok:
            raise vp.ToolFailure("binding self-test: a corrupted hook trace was accepted by WsRpcTrace")


def wsrpc_trace_cfg(events):
    """WsRpcTrace.cfg with the trace-derived constants as literals (WsRpcTrace.tla ASSUMEs they equal its own definitions)."""
    def kt(K):
        return {e["call"] for e in events if e.get("ev") == "CallStart" and e.get("kind") in K}
    retry, notif, subs = kt({"retry"}), kt({"notify", "panicnotify"}), kt({"sub"})
    enq = {e["tok"] for e in events if e.get("ev") == "h:req.enq.pre" and "tok" in e and e.get("method") != "xrpc.cancel"}
    unary = (kt({"unary", "big", "bigreq", "callback", "panic"}) | enq) - retry - notif - subs
    n = lambda name: sum(1 for e in events if e.get("ev") == name)
    rec = not any(e.get("ev") == "reset" and (e.get("args") or {}).get("noreconnect") for e in events)
    fs = lambda x: "{" + ", ".join(str(t) for t in sorted(x)) + "}"
    cfg = open(os.path.join(vp.SPEC, "WsRpcTrace.cfg")).read()
    for a, b in (("Unary <- TraceUnary", "Unary = " + fs(unary)), ("Subs <- TraceSubs", "Subs = " + fs(subs)), ("Notifs <- TraceNotif", "Notifs = " + fs(notif)),
                 ("Retry <- TraceRetry", "Retry = " + fs(retry)), ("NVals <- TraceNVals", "NVals = 1000"), ("MaxGen <- TraceMaxGen", "MaxGen = %d" % n("h:redial.swap")),
                 ("MaxFaults <- TraceMaxFaults", "MaxFaults = %d" % (n("WireFault") + n("h:ws.done") + 1)),
                 ("Reconnect <- TraceReconnect", "Reconnect = %s" % ("TRUE" if rec else "FALSE"))):
        assert a in cfg
        cfg = cfg.replace(a, b)
    return cfg


def srv_binding(run, wd, per, scen, tag, selftest=True):
    """Server half of the hook-level binding: every accepted server connection of the recorded scenarios is one segment that must
    be a behaviour of SrvConn.tla (SrvConnTrace.tla; one TLC process for all segments).  Rejection = DRIFT."""
    import shutil
    import re as _re
    import srvtrace
    segs, unsupported = [], {}
    for i, ev in enumerate(per):
        try:
            for sg in srvtrace.segments(ev):
                segs.append((i, sg))
        except srvtrace.Unsupported as u:
            unsupported[str(u)] = unsupported.get(str(u), 0) + 1

    def validate(name, seglist):
        d = os.path.join(wd, "sbind_%s_%s" % (tag, name))
        os.makedirs(d, exist_ok=True)
        for f in ("SrvConn.tla", "SrvConnTrace.tla"):
            shutil.copy(os.path.join(vp.SPEC, f), d)
        ids = set()
        for _, sg in seglist:
            for k in ("unary", "sub", "notif", "panic", "pnotif"):
                ids |= set(sg[0][k])
        cfg = open(os.path.join(vp.SPEC, "SrvConnTrace.cfg")).read()
        assert "Ids <- TraceIds" in cfg
        with open(os.path.join(d, "SrvConnTrace.cfg"), "w") as f:
            f.write(cfg.replace("Ids <- TraceIds", "Ids = {" + ", ".join(str(t) for t in sorted(ids)) + "}"))
        n = 0
        with open(os.path.join(d, "sv.ndjson"), "w") as f:
            for _, sg in seglist:
                for line in sg:
                    f.write(json.dumps(line) + "\n")
                    n += 1
        r = run.tlc(d, "SrvConnTrace.tla", "SrvConnTrace.cfg", workers=1, timeout=900)
        m = _re.search(r'"HIGHWATER", (\d+)', r["out"])
        hw = int(m.group(1)) if m else 0
        if r["violated"] == "TraceInvs":
            mm = _re.findall(r"/\\ l = (\d+)", r["out"])
            hw = int(mm[-1]) if mm else hw
        return {"n": n, "hw": hw, "accepted": hw == n + 1 and r["violated"] is None and not r["timeout"], "violated": r["violated"],
                "states": r["distinct"], "timeout": r["timeout"], "rc": r["rc"]}

    def seg_of(seglist, line):
        k = 0
        for idx, (_, sg) in enumerate(seglist):
            if line <= k + len(sg):
                return idx, line - k
            k += len(sg)
        return len(seglist) - 1, 0

    cur, rejected, states, rounds = list(segs), 0, 0, 0
    total = len(segs)
    while cur and rounds < 8:
        rounds += 1
        r = validate("r%d" % rounds, cur)
        states += r["states"]
        if r["accepted"]:
            break
        if r["timeout"] or r["hw"] < 1:
            log("server binding validation did not complete (rc=%s)" % r["rc"])
            break
        idx, off = seg_of(cur, r["hw"])
        si, sg = cur[idx]
        at = sg[min(off, len(sg)) - 1] if off >= 1 else {}
        if r["violated"] == "TraceInvs":
            run.violation("binding: a design invariant of SrvConn is violated on a real execution (%s, connection %s)"
                          % (scen[si].get("sc"), sg[0].get("gen")), "TraceInvs", {"property": run.prop, "scenario": scen[si], "segment": sg[:400]})
        else:
            rejected += 1
            run.cov["drift"] += 1
            run.cov.setdefault("drift_samples", []).append({"scenario": scen[si], "server_connection": sg[0].get("gen"), "stuck_at_line": off, "event": at})
            print("DRIFT property=%s binding: server connection %s of scenario %s is not a behaviour of SrvConn.tla at its line %d (%s); "
                  "verdicts come from the Obs predicates" % (run.prop, sg[0].get("gen"), scen[si].get("sc"), off, at.get("e")))
        cur = cur[:idx] + cur[idx + 1:]
    run.cov.setdefault("binding", {})
    run.cov["binding"][tag + "/server"] = {"server_connections": total, "accepted": total - rejected if rounds < 8 or not cur else None, "rejected": rejected,
                                           "events": sum(len(sg) for _, sg in segs), "states": states, "scenarios_not_bound": unsupported}
    run.cov["traces_validated_against_impl"] += total - rejected
    if selftest and segs:
        # one logged field corrupted / one hook's events removed -> must be rejected
        # (a segment in which later events depend on the ones removed: a response that was written, seen on the wire, and its call finished)
        base = [s for s in cur if any(l["e"] == "call.spawn" and l["id"] >= 0 for l in s[1]) and len(s[1][0]["unary"]) + len(s[1][0]["sub"]) >= 2
                and any(l["e"] == "handling.done" for l in s[1]) and any(l["e"] == "wire" and l["k"] == "resp" for l in s[1])][:1] if rounds < 8 else []
        ok = True
        if base:
            i, sg = base[0]
            ids = sorted(set(l["id"] for l in sg if l["e"] == "call.spawn" and l["id"] >= 0))
            bad = [dict(l) for l in sg]
            for l in bad:
                if l["e"] == "call.spawn" and l["id"] == ids[0]:
                    l["id"] = ids[-1]
                    break
            ok = ok and not validate("self1", [(i, bad)])["accepted"]
            bad2 = [l for l in sg if l["e"] != "wl.resp"]
            if len(bad2) != len(sg):
                ok = ok and not validate("self2", [(i, bad2)])["accepted"]
            run.cov["binding"][tag + "/server"]["selftest_rejects_corrupted_traces"] = ok
            if not ok:
                raise vp.ToolFailure("binding self-test: a corrupted server trace was accepted by SrvConnTrace")


def http_call_binding(run, wd, trace):
    """API-level binding of HttpCall.tla: the call under test (token 1) of every c04.httpkill scenario, one segment each."""
    import shutil
    import re as _re
    segs, cur, name = [], None, None
    for e in trace:
        ev = e.get("ev")
        if ev == "reset":
            name = e.get("name")
            cur = None
            if name == "c04.httpkill":
                cur = [{"e": "seg", "retry": (e.get("args") or {}).get("kind") == "retry"}]
                segs.append(cur)
        elif cur is not None:
            if ev == "CallStart" and e.get("call") == 1:
                cur.append({"e": "start"})
            elif ev == "HandlerStart" and e.get("call") == 1:
                cur.append({"e": "exec"})
            elif ev == "HandlerEnd" and e.get("call") == 1:
                cur.append({"e": "hret"})
            elif ev == "WireFault":
                cur.append({"e": "fault"})
            elif ev == "CallEnd" and e.get("call") == 1:
                cur.append({"e": "end", "outcome": e.get("outcome")})
    if not segs:
        return
    d = os.path.join(wd, "hcbind")
    os.makedirs(d, exist_ok=True)
    for f in ("HttpCall.tla", "HttpCallTrace.tla", "HttpCallTrace.cfg"):
        shutil.copy(os.path.join(vp.SPEC, f), d)
    n = 0
    with open(os.path.join(d, "hc.ndjson"), "w") as f:
        for sg in segs:
            for line in sg:
                f.write(json.dumps(line) + "\n")
                n += 1
    r = run.tlc(d, "HttpCallTrace.tla", "HttpCallTrace.cfg", workers=1, timeout=300)
    m = _re.search(r'"HIGHWATER", (\d+)', r["out"])
    hw = int(m.group(1)) if m else 0
    ok = hw == n + 1 and r["violated"] is None
    run.cov.setdefault("binding", {})["c04/http"] = {"segments": len(segs), "events": n, "accepted": ok}
    if ok:
        run.cov["traces_validated_against_impl"] += len(segs)
    elif r["violated"] == "TraceInvs":
        pass    # more than one execution of an untagged call: already a verdict of the Obs clause executed-more-than-once
    else:
        run.cov["drift"] += 1
        print("DRIFT property=%s binding: the HTTP call of a c04.httpkill scenario is not a behaviour of HttpCall.tla (trace line %d); "
              "verdicts come from the Obs predicates" % (run.prop, hw))
