"""Per-property check definitions (see DESIGN.md section 6)."""
import json
import os
import random

import vp

CHECKS = {}


def check(pid):
    def deco(f):
        CHECKS[pid] = f
        return f
    return deco


def seeded_slice(rows, seed, frac, key=None):
    """Deterministic seed-dependent subset of rows (quick tier)."""
    rnd = random.Random(seed)
    return [r for r in rows if rnd.random() < frac]


# --------------------------------------------------------------------------------------------- C19
@check("C19")
def c19(run, replay):
    run.assumptions += [
        "3-permission universe is representative: the code only compares permissions for equality",
        "the HTTP layer is net/http/httptest (no real socket)",
    ]
    vp.table_check(
        run, "AuthMC", "AuthTrace", "c19",
        rule="all 768 PermissionedProxy rows and 1134 auth.Handler rows of Auth.tla, each concretised with seeded "
             "permission names, slice order/duplicates, nil vs empty slices, fresh and shared handler instances; "
             "distinct = distinct abstract rows",
        sig=lambda t: "row %s" % json.dumps(t["row"], sort_keys=True))


# --------------------------------------------------------------------------------------------- C12
@check("C12")
def c12(run, replay):
    run.assumptions += [
        "universe: namespaces {A, B, ''} x methods {Foo, Bar} x 5 formatters x <=1 alias entry over all 24 candidate names; "
        "name rows are a TLC RandomSubset sample per dimension (orders x alias tables), client and arity rows are complete",
        "decodability of a JSON value into a declared Go type is decided by encoding/json (oracle inside the harness)",
    ]
    thorough = run.tier == "thorough"
    wd = run.dir("work")
    cfg = open(os.path.join(vp.SPEC, "DispatchMC.cfg")).read()
    cfg = cfg.replace("NOrders = 6", "NOrders = %d" % (16 if thorough else 6)).replace("NAliases = 40", "NAliases = %d" % (250 if thorough else 40))
    for f in os.listdir(vp.SPEC):
        if f.startswith("Dispatch"):
            import shutil
            shutil.copy(os.path.join(vp.SPEC, f), wd)
    with open(os.path.join(wd, "DispatchRun.cfg"), "w") as f:
        f.write(cfg)
    os.utime(os.path.join(wd, "DispatchRun.cfg"))
    vp.table_check(
        run, "DispatchMC", "DispatchTrace", "c12", mc_cfg="DispatchRun.cfg",
        rule="rows of Dispatch.tla (name dispatch x alias x formatter x registration order; client/server naming; arity and "
             "per-parameter decodability), each executed against a real RPCServer / custom-transport client; distinct = distinct abstract rows",
        sig=lambda t: "row %s" % json.dumps(t["row"], sort_keys=True),
        mc_timeout=1200, trace_timeout=1800)


# --------------------------------------------------------------------------------------------- C09
def _cfg_with(run, wd, src_cfg, dst_cfg, repl):
    import shutil
    for f in os.listdir(vp.SPEC):
        if f.endswith(".tla") or f.endswith(".cfg"):
            shutil.copy(os.path.join(vp.SPEC, f), wd)
    cfg = open(os.path.join(vp.SPEC, src_cfg)).read()
    for a, b in repl:
        assert a in cfg, (a, src_cfg)
        cfg = cfg.replace(a, b)
    with open(os.path.join(wd, dst_cfg), "w") as f:
        f.write(cfg)


@check("C09")
def c09(run, replay):
    run.assumptions += [
        "request grammar: 8 id classes x 14 request classes per element; bodies empty/whitespace/garbage/non-object/null/"
        "empty batch/batch with malformed element/single/batch of 1..3; batches are built from a seeded TLC sample of element types",
        "a WebSocket frame without a method member is a response, not a request frame (protocol design)",
        "tolerated, not demanded: error reply with id null to a notification that failed (HTTP only)",
        "ids are chosen exactly representable in float64 as the property requires",
    ]
    thorough = run.tier == "thorough"
    wd = run.dir("work")
    _cfg_with(run, wd, "HttpReplyMC.cfg", "HttpReplyRun.cfg", [("NElems = 5", "NElems = %d" % (16 if thorough else 5))])
    vp.table_check(
        run, "HttpReplyMC", "HttpReplyTrace", "c09", mc_cfg="HttpReplyRun.cfg",
        rule="rows of HttpReply.tla concretised to real bytes (seeded ids, field order, padding, parameter values) and sent "
             "through RPCServer.HandleRequest, real HTTP and WebSocket frames; distinct = distinct abstract rows",
        sig=lambda t: "row %s" % json.dumps(t["row"], sort_keys=True),
        mc_timeout=1200, trace_timeout=1800, harness_timeout=1800)


# --------------------------------------------------------------------------------------------- C10
@check("C10")
def c10(run, replay):
    run.assumptions += [
        "hostile input = every single frame of the Builtins.tla grammar (605 frame shapes) sent to a real server by a raw WebSocket "
        "client and to a real client by a fake server, plus a seeded TLC sample of two-frame sequences; endpoints are hosted in a child process",
        "absence of an effect is judged after a probe call has round-tripped on the same connection (frames are executed in order)",
        "WebSocket-level protocol violations (RSV bit, reserved opcode, malformed close, fragmented control frame) may close the connection",
    ]
    thorough = run.tier == "thorough"
    wd = run.dir("work")
    _cfg_with(run, wd, "BuiltinsMC.cfg", "BuiltinsRun.cfg", [("NPairs = 6", "NPairs = %d" % (24 if thorough else 6))])
    # non-vacuity: without the guards the model itself reaches a crash state
    nog = run.tlc(wd, "BuiltinsMC.tla", "BuiltinsMC_noguards.cfg", timeout=600, tag="model_runs")
    if nog["violated"] != "NeverCrashes":
        raise vp.ToolFailure("self-test: unguarded Builtins model should violate NeverCrashes, got %s" % nog["violated"])
    vp.table_check(
        run, "BuiltinsMC", "BuiltinsTrace", "c10", mc_cfg="BuiltinsRun.cfg",
        rule="rows of Builtins.tla: hostile frame (sequence) x role {server, client} with a live call / stream / in-flight request, "
             "and HTTP body sizes around each limit x padding kind; distinct = distinct abstract rows",
        sig=lambda t: "row %s" % json.dumps(t["row"], sort_keys=True),
        mc_timeout=1200, trace_timeout=1800, harness_timeout=3000)


# --------------------------------------------------------------------------------------------- C11
@check("C11")
def c11(run, replay):
    run.assumptions += [
        "error classes: nil, unregistered, registered plain (value/pointer form), marshalable (pointer form; a value-form type with a "
        "pointer-receiver UnmarshalJSON is not a marshalable value in Go and travels as a plain type), codec, and the four failing "
        "conversions; tables: same code both sides, client only, server only, disjoint codes, none; x {error, (value,error)} x {http, ws, custom}",
        "for registered plain types only the dynamic type is compared (the library transfers no content for them by design)",
        "messages are seeded valid-UTF-8 strings incl. empty, quotes, HTML-significant and control characters",
    ]
    vp.table_check(
        run, "ErrCodecMC", "ErrCodecTrace", "c11",
        rule="all 495 rows of ErrCodec.tla, each run through a real client/server pair with seeded messages; distinct = distinct abstract rows",
        sig=lambda t: "row %s" % json.dumps(t["row"], sort_keys=True))
