"""Per-property check definitions (see DESIGN.md section 6)."""
import json
import os
import random

import vp

CHECKS = {}


def check(pid):
    def deco(f):
        CHECKS[pid] = f
        return f
    return deco


def seeded_slice(rows, seed, frac, key=None):
    """Deterministic seed-dependent subset of rows (quick tier)."""
    rnd = random.Random(seed)
    return [r for r in rows if rnd.random() < frac]


# --------------------------------------------------------------------------------------------- C19
@check("C19")
def c19(run, replay):
    run.assumptions += [
        "3-permission universe is representative: the code only compares permissions for equality",
        "the HTTP layer is net/http/httptest (no real socket)",
    ]
    vp.table_check(
        run, "AuthMC", "AuthTrace", "c19",
        rule="all 768 PermissionedProxy rows and 1134 auth.Handler rows of Auth.tla, each concretised with seeded "
             "permission names, slice order/duplicates, nil vs empty slices, fresh and shared handler instances; "
             "distinct = distinct abstract rows",
        sig=lambda t: "row %s" % json.dumps(t["row"], sort_keys=True))
