"""Cuts the recorded events of one single-client scenario into one segment per accepted server connection and renames the
events 1:1 into the vocabulary of spec/SrvConnTrace.tla.  Nothing is invented, merged or reordered: every output line is one
recorded event (hook point of the server-side wsConn / of a handler goroutine, a frame the proxy saw, or a harness API event);
the only derived datum is the attribution of handler-side events (which the library logs without a connection) to the
connection that spawned the handler for that call token."""

KIND = {"unary": "unary", "retry": "unary", "big": "unary", "bigreq": "unary", "notify": "notif", "sub": "sub", "panic": "panic",
        "panicnotify": "pnotif"}
METHOD = {"H.Unary": "unary", "H.Retry": "unary", "H.Big": "unary", "H.BigReq": "unary", "H.Notify": "notif", "H.Sub": "sub",
          "H.Panic": "panic", "H.PanicNotify": "pnotif", "H.PanicSub": "panic"}
SIMPLE = {"h:rd.msg.pre": "rd.msg", "h:rd.queue.pre": "rd.queue", "h:rd.err": "rd.err", "h:main.ctxdone": "main.ctxdone",
          "h:closechans.pre": "closechans.pre", "h:closechans": "closechans", "h:closeinflight": "closeinflight",
          "h:closehandling": "closehandling", "h:exit.done": "exit.done", "h:ws.done": "ws.done", "h:exec.exit": "exec.exit",
          "h:fwd.exit": "fwd.exit", "h:rd.readerr": "rd.readerr", "h:main.readerr": "main.readerr"}


class Unsupported(Exception):
    pass


def segments(events):
    """events: the recorded events of one scenario (dicts, in recorder order).  Returns a list of segments, each a list of
    lines starting with its "seg" line, or raises Unsupported with the reason."""
    kinds, clients = {}, set()
    for e in events:
        if e.get("ev") == "CallStart":
            k = KIND.get(e.get("kind"))
            if k is None:
                raise Unsupported("call kind %s" % e.get("kind"))
            if kinds.get(e["call"], k) != k:
                raise Unsupported("token reused with another kind")
            kinds[e["call"]] = k
            clients.add(e.get("cli"))
            if e.get("transport", "ws") != "ws":
                raise Unsupported("transport")
        elif e.get("ev") == "h:req.params" and e.get("tok") is not None and e["tok"] not in kinds and e.get("method") != "xrpc.cancel":
            # calls the harness issues without announcing them (quiescence probes): the method says what they are
            k = METHOD.get(e.get("method"))
            if k is None:
                raise Unsupported("method %s" % e.get("method"))
            kinds[e["tok"]] = k
    if len(clients) > 1:
        raise Unsupported("several clients")
    segs, toks = {}, {}
    spawn = {}           # call token (None for an id-less call) -> connection that spawned its handler most recently

    def seg(g):
        if g not in segs:
            segs[g] = []
            toks[g] = set()
        return segs[g]

    for e in events:
        ev = e.get("ev", "")
        if ev == "WireFrame":
            g = e["conn"] - 1
            k, tok = e.get("kind"), e.get("tok")
            if e["dir"] == "c2s":
                if k in ("req", "notif"):
                    if tok is None or tok not in kinds:
                        raise Unsupported("request without a known token")
                    seg(g).append({"e": "send", "k": k, "id": tok})
                    toks[g].add(tok)
                elif k == "cancel":
                    if tok is None:
                        raise Unsupported("cancel without a known target")
                    seg(g).append({"e": "sendcancel", "id": tok})
                elif k == "close":
                    seg(g).append({"e": "peerclose"})
                elif k in ("resp", "chval", "chclose", "bad"):
                    raise Unsupported("client-to-server %s frame (reverse call)" % k)
            else:
                if k == "resp":
                    if tok is None:
                        raise Unsupported("response without a known token")
                    seg(g).append({"e": "wire", "k": "resp", "id": tok, "chid": e.get("chid", -1), "err": bool(e.get("iserr"))})
                elif k == "chval":
                    seg(g).append({"e": "wire", "k": "val", "id": -1, "chid": e["chid"], "err": False})
                elif k == "chclose":
                    seg(g).append({"e": "wire", "k": "cls", "id": -1, "chid": e["chid"], "err": False})
                elif k in ("req", "notif"):
                    raise Unsupported("server-to-client request (reverse call)")
            continue
        if ev == "WireNote":
            raise Unsupported("frame injected by the proxy (not a frame of the modelled peer)")
        if ev == "WireFault":
            f = str(e.get("fault", ""))
            if e.get("dir") == "c2s" and (f.startswith("cut-payload") or f.startswith("cut-last")):
                seg(e["conn"] - 1).append({"e": "peercut"})
            continue
        if ev == "SrvCancel":
            seg(e["srvconn"] - 1).append({"e": "srvcancel"})
            continue
        if ev in ("HandlerChanClose", "HandlerCtxDone"):
            g = spawn.get(e["call"])
            if g is not None:
                seg(g).append({"e": "pclose" if ev == "HandlerChanClose" else "ctxdone", "id": e["call"]})
            continue
        if not ev.startswith("h:"):
            continue
        tok = e.get("tok")
        if e.get("role") == "server" and "gen" in e:
            g = e["gen"]
            s = seg(g)
            if ev in SIMPLE:
                s.append({"e": SIMPLE[ev]})
            elif ev == "h:main.incoming":
                s.append({"e": "main.incoming", "ok": bool(e["ok"])})
            elif ev == "h:exec.pop":
                m = e.get("method", "")
                if m == "xrpc.cancel":
                    s.append({"e": "exec.pop", "m": "cancel", "id": -1})
                elif m in ("", "xrpc.ch.val", "xrpc.ch.close"):
                    raise Unsupported("server pops a %s frame (reverse call)" % (m or "response"))
                elif e.get("id") == "nil":
                    s.append({"e": "exec.pop", "m": "notif", "id": -1})
                else:
                    if tok is None:
                        raise Unsupported("request frame without a known token")
                    s.append({"e": "exec.pop", "m": "req", "id": tok})
            elif ev == "h:call.spawn":
                s.append({"e": "call.spawn", "id": tok if tok is not None else -1})
                spawn[tok] = g
            elif ev == "h:cancel.recv":
                if tok is None:
                    raise Unsupported("cancel for an unknown id")
                s.append({"e": "cancel.recv", "id": tok, "found": bool(e["found"])})
            elif ev == "h:handling.done":
                s.append({"e": "handling.done", "id": tok})
            elif ev == "h:chout.reg.pre":
                s.append({"e": "chout.pre", "id": tok if tok is not None else -1})
            elif ev == "h:fwd.reg":
                s.append({"e": "fwd.reg", "id": tok, "chid": e["chid"]})
            elif ev == "h:fwd.val":
                s.append({"e": "fwd.val", "chid": e["chid"]})
            elif ev == "h:fwd.close":
                s.append({"e": "fwd.close", "chid": e["chid"]})
            elif ev == "h:wl.enter":
                w, m = e.get("w"), e.get("method", "")
                if w == "resp":
                    s.append({"e": "wl.resp"})
                elif w == "req" and m == "xrpc.ch.val":
                    s.append({"e": "wl.val"})
                elif w == "req" and m == "xrpc.ch.close":
                    s.append({"e": "wl.cls"})
                elif w == "req":
                    raise Unsupported("server writes a request (reverse call)")
            continue
        if e.get("role") in ("", None) and ev in ("h:h.call.pre", "h:h.ret", "h:h.resp.pre"):
            g = spawn.get(tok)
            if g is None:
                raise Unsupported("handler event before its spawn")
            if ev == "h:h.call.pre":
                segs[g].append({"e": "h.start", "id": tok if tok is not None else -1})
            elif ev == "h:h.ret":
                segs[g].append({"e": "h.ret", "id": tok if tok is not None else -1, "panic": bool(e.get("panic"))})
            elif tok is not None:
                segs[g].append({"e": "h.resp.pre", "id": tok})
    out = []
    for g in sorted(segs):
        by = {k: sorted(t for t in toks[g] if kinds[t] == k) for k in ("unary", "sub", "notif", "panic", "pnotif")}
        head = {"e": "seg", "gen": g}
        head.update(by)
        out.append([head] + segs[g])
    return out
