"""Shared runner library for the go-jsonrpc TLA+ conformance checks.

Every check follows the same pipeline:
  1. build the Go harness from /repo's current working tree with -tags verif
  2. model-check the property's TLA+ module(s) with TLC (and let TLC export tables / behaviours)
  3. run the harness: real code, driven by the TLC output -> trace.ndjson
  4. validate the trace with TLC against the trace specification (conformance + P_Cxx verdicts)
  5. write /verif/evidence/<id>.json, print VIOLATION / KNOWN-FINDING lines, exit 0 / 1 / 2

Verdict discipline (DESIGN.md section 5): a VIOLATION is only raised when a property predicate
evaluated by TLC is false on behaviour recorded from the real code. Model-only problems, harness
failures, timeouts and tool errors are exit 2 (tool failure), never a verdict.
"""
import hashlib
import json
import os
import re
import shutil
import subprocess
import sys
import tempfile
import time

VERIF = os.path.dirname(os.path.dirname(os.path.abspath(__file__)))
REPO = os.environ.get("VERIF_REPO", "/repo")
SPEC = os.path.join(VERIF, "spec")
HARNESS = os.path.join(VERIF, "harness")
EVID = os.path.join(VERIF, "evidence")
REPLAYS = os.path.join(EVID, "replays")
KNOWN = os.path.join(VERIF, "known_findings.jsonl")
TLA_CP = "/opt/veriftools/tla/tla2tools.jar:/opt/veriftools/tla/CommunityModules-deps.jar"

GOENV = dict(GOFLAGS="-mod=mod", GOPROXY="off", GOSUMDB="off", GOTOOLCHAIN="local")


class ToolFailure(Exception):
    pass


def log(*a):
    print("[check]", *a, file=sys.stderr, flush=True)


class Run:
    def __init__(self, prop, tier, seed, level="model_checking"):
        self.prop = prop
        self.tier = tier
        self.seed = seed
        self.level = level
        self.t0 = time.time()
        base = os.environ.get("VERIF_SCRATCH") or tempfile.gettempdir()
        self.scratch = tempfile.mkdtemp(prefix="vp-%s-" % prop, dir=base)
        self.keep = bool(os.environ.get("VERIF_KEEP"))
        self.cov = {
            "states": 0, "transitions": 0, "traces_validated_against_impl": 0, "samples": [],
            "evaluations": 0, "distinct_nontrivial": 0, "rule": "", "model_runs": [], "trace_runs": [],
            "drift": 0, "exhaustive": False,
        }
        self.assumptions = []
        self.violations = []   # dicts: signature, detail, replay
        self.known_hits = []
        self._harness_bin = None

    # ------------------------------------------------------------------ utilities
    def dir(self, name):
        d = os.path.join(self.scratch, name)
        os.makedirs(d, exist_ok=True)
        return d

    def cleanup(self):
        if not self.keep:
            shutil.rmtree(self.scratch, ignore_errors=True)
        else:
            log("scratch kept at", self.scratch)

    # ------------------------------------------------------------------ Go harness
    def build_harness(self):
        if self._harness_bin:
            return self._harness_bin
        out = os.path.join(self.scratch, "verifharness")
        env = dict(os.environ)
        env.update(GOENV)
        t = time.time()
        p = subprocess.run(["go", "build", "-tags", "verif", "-o", out, "."], cwd=HARNESS, env=env,
                           stdout=subprocess.PIPE, stderr=subprocess.STDOUT, text=True)
        if p.returncode != 0:
            raise ToolFailure("harness build failed (does /repo compile with -tags verif?):\n" + p.stdout[-4000:])
        log("harness built in %.1fs" % (time.time() - t))
        self._harness_bin = out
        return out

    def harness(self, driver, cwd, infile=None, outfile="trace.ndjson", args=None, timeout=600, env_extra=None,
                allow_fail=False):
        """Run a harness driver. Returns (returncode, combined output)."""
        cmd = [self.build_harness(), driver, "-seed", str(self.seed), "-tier", self.tier, "-out", outfile]
        if infile:
            cmd += ["-in", infile]
        for k, v in (args or {}).items():
            cmd += ["-arg", "%s=%s" % (k, v)]
        env = dict(os.environ)
        env.update(GOENV)
        env.update(env_extra or {})
        t = time.time()
        try:
            p = subprocess.run(cmd, cwd=cwd, env=env, stdout=subprocess.PIPE, stderr=subprocess.STDOUT, text=True,
                               timeout=timeout)
        except subprocess.TimeoutExpired as e:
            raise ToolFailure("harness driver %s timed out after %ss\n%s" % (driver, timeout, (e.stdout or "")[-2000:]))
        log("harness %s: rc=%d %.1fs" % (driver, p.returncode, time.time() - t))
        if p.returncode != 0 and not allow_fail:
            raise ToolFailure("harness driver %s failed rc=%d:\n%s" % (driver, p.returncode, p.stdout[-4000:]))
        return p.returncode, p.stdout

    # ------------------------------------------------------------------ TLC
    def tlc(self, cwd, module, cfg=None, workers=None, timeout=900, extra=None, specs=None, heap=None, tag=None,
            deque=False):
        """Run TLC on module (in cwd, spec files copied there). Returns a dict with the parsed outcome."""
        for f in os.listdir(SPEC):
            if f.endswith(".tla") or f.endswith(".cfg"):
                src = os.path.join(SPEC, f)
                dst = os.path.join(cwd, f)
                if not os.path.exists(dst) or os.path.getmtime(src) > os.path.getmtime(dst):
                    shutil.copy(src, dst)
        meta = tempfile.mkdtemp(prefix="meta-", dir=cwd)
        w = str(workers or min(16, os.cpu_count() or 4))
        cmd = ["java", "-XX:+UseParallelGC"]
        if heap:
            cmd.append("-Xmx" + heap)
        cmd.append("-Xss64m")
        if deque:
            cmd.append("-Dtlc2.tool.queue.IStateQueue=StateDeque")
        cmd += ["-cp", TLA_CP, "tlc2.TLC", "-workers", w, "-metadir", meta]
        if cfg:
            cmd += ["-config", cfg]
        cmd += (extra or []) + [module]
        t = time.time()
        try:
            p = subprocess.run(cmd, cwd=cwd, stdout=subprocess.PIPE, stderr=subprocess.STDOUT, text=True, timeout=timeout)
            out = p.stdout
            rc = p.returncode
        except subprocess.TimeoutExpired as e:
            out = e.stdout.decode() if isinstance(e.stdout, bytes) else (e.stdout or "")
            rc = -9
            subprocess.run(["pkill", "-f", meta], stdout=subprocess.DEVNULL, stderr=subprocess.DEVNULL)
        shutil.rmtree(meta, ignore_errors=True)
        res = {"module": module, "cfg": cfg or module.replace(".tla", ".cfg"), "rc": rc, "wall_s": round(time.time() - t, 2),
               "ok": False, "violated": None, "deadlock": False, "generated": 0, "distinct": 0, "depth": 0, "out": out,
               "timeout": rc == -9}
        m = None
        for m in re.finditer(r"(\d+) states generated, (\d+) distinct states found", out):
            pass
        if m:
            res["generated"], res["distinct"] = int(m.group(1)), int(m.group(2))
        m = re.search(r"depth of the complete state graph search is (\d+)", out)
        if m:
            res["depth"] = int(m.group(1))
        if "No error has been found" in out and rc == 0:
            res["ok"] = True
        m = re.search(r"Invariant (\S+) is violated", out)
        if m:
            res["violated"] = m.group(1)
        m = re.search(r"Action property (\S+) is violated|Temporal properties were violated", out)
        if m and not res["violated"]:
            res["violated"] = m.group(1) or "temporal"
        if "Deadlock reached" in out:
            res["deadlock"] = True
        log("tlc %s/%s: ok=%s violated=%s states=%d/%d %.1fs" % (module, res["cfg"], res["ok"], res["violated"],
                                                                res["generated"], res["distinct"], res["wall_s"]))
        if tag is not None:
            self.cov[tag].append({k: res[k] for k in ("module", "cfg", "ok", "violated", "generated", "distinct", "depth", "wall_s")})
        return res

    def model_check(self, cwd, module, cfg=None, expect_ok=True, **kw):
        """Exhaustive (or simulated) run of a design-level configuration. A failure here is a modelling/tool
        problem, never a verdict about the code."""
        kw.setdefault("extra", [])
        kw["extra"] = list(kw["extra"]) + ["-seed", str(self.seed)]
        res = self.tlc(cwd, module, cfg, tag="model_runs", **kw)
        if res["timeout"]:
            raise ToolFailure("TLC timed out on %s/%s" % (module, cfg))
        if expect_ok and not res["ok"]:
            raise ToolFailure("model %s/%s does not satisfy its invariants (modelling problem, not a verdict):\n%s"
                              % (module, cfg, res["out"][-3000:]))
        self.cov["states"] += res["distinct"]
        self.cov["transitions"] += res["generated"]
        return res

    def validate_trace(self, cwd, module, cfg=None, result="result.json", **kw):
        """Run a trace specification; it must consume the whole trace and write result.json."""
        rp = os.path.join(cwd, result)
        if os.path.exists(rp):
            os.remove(rp)
        kw.setdefault("workers", 1)
        res = self.tlc(cwd, module, cfg, tag="trace_runs", **kw)
        if res["timeout"] or not res["ok"] or not os.path.exists(rp):
            raise ToolFailure("trace validation %s did not complete (rc=%s):\n%s" % (module, res["rc"], res["out"][-3000:]))
        with open(rp) as f:
            r = json.load(f)
        if isinstance(r, list):
            r = r[0]
        if r.get("consumed") != r.get("n"):
            raise ToolFailure("trace validation %s consumed %s of %s lines" % (module, r.get("consumed"), r.get("n")))
        return r

    # ------------------------------------------------------------------ verdicts
    def save_replay(self, name, obj):
        os.makedirs(REPLAYS, exist_ok=True)
        h = hashlib.sha1(json.dumps(obj, sort_keys=True, default=str).encode()).hexdigest()[:10]
        path = os.path.join(REPLAYS, "%s-%s-%s.json" % (self.prop, name, h))
        with open(path, "w") as f:
            json.dump(obj, f, indent=1, default=str)
        return path

    def violation(self, signature, detail, replay_obj):
        """Record a candidate violation (already confirmed on real-code behaviour by a P_Cxx predicate)."""
        for k in load_known():
            if k.get("status") == "known" and k.get("property") == self.prop and k.get("signature") and \
                    re.search(k["signature"], signature):
                if k["signature"] not in [x["signature"] for x in self.known_hits]:
                    self.known_hits.append(k)
                return
        path = self.save_replay(re.sub(r"[^A-Za-z0-9]+", "_", signature)[:40], replay_obj)
        self.violations.append({"signature": signature, "detail": detail, "replay": path})

    def sample(self, obj, limit=6):
        if len(self.cov["samples"]) < limit:
            self.cov["samples"].append(obj)

    def finish(self):
        wall = round(time.time() - self.t0, 2)
        cov = dict(self.cov)
        if not cov["samples"]:
            cov["samples"] = [{"note": "no sample recorded"}]
        ev = {
            "property_id": self.prop, "tier": self.tier, "seed": self.seed, "level": self.level,
            "coverage": cov, "assumptions": self.assumptions, "wall_s": wall,
            "violations": len(self.violations),
            "known_findings": [k.get("signature") for k in self.known_hits],
        }
        os.makedirs(EVID, exist_ok=True)
        with open(os.path.join(EVID, self.prop + ".json"), "w") as f:
            json.dump(ev, f, indent=1, default=str)
        for k in self.known_hits:
            print("KNOWN-FINDING: property=%s %s" % (self.prop, k.get("what", k.get("signature"))))
        for v in self.violations[:20]:
            print("VIOLATION property=%s replay=%s  # %s" % (self.prop, v["replay"], v["signature"]))
        if len(self.violations) > 20:
            print("... %d further violations (see evidence)" % (len(self.violations) - 20))
        self.cleanup()
        if self.violations:
            print("RESULT property=%s tier=%s seed=%d FAIL violations=%d wall=%.1fs" % (self.prop, self.tier, self.seed, len(self.violations), wall))
            return 1
        print("RESULT property=%s tier=%s seed=%d PASS states=%d traces=%d evaluations=%d drift=%d wall=%.1fs" % (
            self.prop, self.tier, self.seed, cov["states"], cov["traces_validated_against_impl"], cov["evaluations"], cov["drift"], wall))
        return 0


def load_known():
    out = []
    if os.path.exists(KNOWN):
        for l in open(KNOWN):
            l = l.strip()
            if l:
                out.append(json.loads(l))
    return out


def read_ndjson(path):
    out = []
    with open(path) as f:
        for l in f:
            l = l.strip()
            if l:
                out.append(json.loads(l))
    return out


def table_check(run, mc_module, trace_module, driver, rows_file="rows.ndjson", mc_cfg=None, trace_cfg=None,
                row_filter=None, sig=None, harness_args=None, rule="", mc_timeout=900, harness_timeout=900,
                trace_timeout=900, harness_env=None):
    """Generic pipeline for the sequential ("table") modules.

    TLC model-checks mc_module and exports its full row table; the harness runs every (selected) row against
    the real code; TLC validates the observed outcomes with trace_module (conformance -> drift, P -> viol)."""
    wd = run.dir("work")
    run.model_check(wd, mc_module + ".tla", mc_cfg or mc_module + ".cfg", timeout=mc_timeout)
    rows = read_ndjson(os.path.join(wd, rows_file))
    if not rows:
        raise ToolFailure("TLC exported no rows")
    if row_filter:
        sel = row_filter(rows)
        with open(os.path.join(wd, "rows.sel.ndjson"), "w") as f:
            for r in sel:
                f.write(json.dumps(r) + "\n")
        infile = "rows.sel.ndjson"
        run.cov["exhaustive"] = len(sel) == len(rows)
    else:
        sel = rows
        infile = rows_file
        run.cov["exhaustive"] = True
    run.cov["table_rows"] = len(rows)
    run.cov["rows_run"] = len(sel)
    run.harness(driver, wd, infile=infile, outfile="trace.ndjson", args=harness_args, timeout=harness_timeout,
                env_extra=harness_env)
    trace = read_ndjson(os.path.join(wd, "trace.ndjson"))
    if not trace:
        raise ToolFailure("harness produced an empty trace")
    res = run.validate_trace(wd, trace_module + ".tla", trace_cfg or trace_module + ".cfg", timeout=trace_timeout)
    run.cov["traces_validated_against_impl"] += len(trace)
    run.cov["evaluations"] += len(trace)
    distinct = set(json.dumps(t.get("row"), sort_keys=True) for t in trace)
    run.cov["distinct_nontrivial"] += len(distinct)
    run.cov["rule"] = rule or ("every row of the TLC-exported table of %s is executed against the real code; "
                               "distinct = distinct abstract rows" % mc_module)
    run.cov["drift"] += len(res.get("drift", []))
    for i in (0, len(trace) // 2, len(trace) - 1):
        run.sample(trace[i])
    for ln in res.get("viol", []):
        t = trace[ln - 1]
        s = sig(t) if sig else json.dumps(t.get("row"), sort_keys=True)
        run.violation(s, "P_%s false on observed outcome" % run.prop, {"property": run.prop, "line": t, "seed": run.seed,
                                                                       "tier": run.tier, "driver": driver})
    if res.get("drift"):
        d = [trace[i - 1] for i in res["drift"][:5]]
        run.cov["drift_samples"] = d
        log("DRIFT property=%s: %d rows where the real outcome differs from the model outcome (property predicate decides the verdict)"
            % (run.prop, len(res["drift"])))
        print("DRIFT property=%s rows=%d (model/code outcome mismatch; see evidence drift_samples)" % (run.prop, len(res["drift"])))
    return res
