#!/bin/sh
# Run once after a fresh restore (offline). Parses every specification and warms the Go build cache.
set -e
cd "$(dirname "$0")"
export GOFLAGS=-mod=mod GOPROXY=off GOSUMDB=off GOTOOLCHAIN=local
mkdir -p evidence/replays
( cd harness && go build -tags verif -o /dev/null . )
tmp=$(mktemp -d)
cp spec/*.tla "$tmp"/
( cd "$tmp" && for f in *.tla; do
    java -cp /opt/veriftools/tla/tla2tools.jar:/opt/veriftools/tla/CommunityModules-deps.jar tla2sany.SANY "$f" > sany.out 2>&1 || { cat sany.out; echo "SANY failed on $f"; exit 1; }
    if grep -q "^\*\*\* Errors\|Fatal errors\|Could not parse" sany.out; then cat sany.out; echo "SANY errors in $f"; exit 1; fi
  done )
rm -rf "$tmp"
echo "setup ok"
